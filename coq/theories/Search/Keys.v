(* Search/Keys.v — the two representations of a search program.

   [key]  : the RFC 3501 §6.4.4 grammar (search-key), what the client writes.
   [skey] : what pymap's parser builds (pymap/parsing/specials/searchkey.py):
            SearchKey(key : bytes, filter, inverse : bool).  The filter's
            Python type depends on the key name; the two recursive shapes
            (b'KEYSET' with a frozenlist of keys, b'OR' with a pair of keys)
            are separate constructors, every other key is [SKAtom].
   [compile] : the value SearchKey.parse returns for the wire form of a [key]
            (checked against the real parser by the correspondence run):
            "NOT k" only flips the [inverse] attribute of k's value; a
            parenthesised list becomes KEYSET; a bare sequence set and
            "UID set" both become b'SEQSET' with SequenceSet.uid false/true.
   Definitions only. *)
From PV Require Import Base.Prelude Wire.SeqSet Search.Text.

Definition date := (N * N * N)%type.        (* year, month, day *)

Inductive sysflag := FAnswered | FDeleted | FDraft | FFlagged | FSeen | FRecent.

Inductive hfield := HBcc | HCc | HFrom | HSubject | HTo.

Inductive dop := DLt | DEq | DGe.        (* '<'  '='  '>=' of DateSearchCriteria *)
Inductive sop := SzLt | SzGt.            (* '<'  '>' of SizeSearchCriteria *)

Inductive key :=
| KAll
| KSet (f : sysflag)          (* ANSWERED DELETED DRAFT FLAGGED SEEN RECENT *)
| KUnset (f : sysflag)        (* UNANSWERED UNDELETED UNDRAFT UNFLAGGED UNSEEN OLD *)
| KNew
| KKeyword (f : bytes) | KUnkeyword (f : bytes)
| KBefore (d : date) | KOn (d : date) | KSince (d : date)
| KSentBefore (d : date) | KSentOn (d : date) | KSentSince (d : date)
| KLarger (n : N) | KSmaller (n : N)
| KHeader (name value : str)
| KField (h : hfield) (value : str)      (* BCC CC FROM SUBJECT TO *)
| KBody (s : str) | KText (s : str)
| KUid (s : seqset) | KSeq (s : seqset)
| KEmailId (id : bytes) | KThreadId (id : bytes)     (* RFC 8474 *)
| KNot (k : key)
| KOr (a b : key)
| KAnd (ks : list key).                  (* "(" search-key *(SP search-key) ")" *)

(* ---- the implementation's representation *)
Inductive kname :=
| NSEQSET | NKEYSET | NALL | NOR | NEMAILID | NTHREADID
| NANSWERED | NUNANSWERED | NDELETED | NUNDELETED | NDRAFT | NUNDRAFT
| NFLAGGED | NUNFLAGGED | NRECENT | NOLD | NSEEN | NUNSEEN
| NKEYWORD | NUNKEYWORD | NNEW
| NBEFORE | NON | NSINCE | NSENTBEFORE | NSENTON | NSENTSINCE
| NSMALLER | NLARGER | NBCC | NCC | NFROM | NSUBJECT | NTO | NHEADER | NBODY | NTEXT.

Inductive afilt :=
| FNone
| FSeq (uid : bool) (s : seqset)
| FFlag (f : bytes)
| FDate (d : date)
| FInt (n : N)
| FStr (s : str)
| FHdr (name value : str)
| FObj (id : bytes).

Inductive skey :=
| SKAtom (name : kname) (f : afilt) (inverse : bool)
| SKSet (l : list skey) (inverse : bool)        (* key = b'KEYSET' *)
| SKOr (a b : skey) (inverse : bool).           (* key = b'OR' *)

(* SearchKey.not_inverse *)
Definition not_inverse (k : skey) : skey :=
  match k with
  | SKAtom n f i => SKAtom n f (negb i)
  | SKSet l i => SKSet l (negb i)
  | SKOr a b i => SKOr a b (negb i)
  end.

Definition set_name (f : sysflag) : kname :=
  match f with FAnswered => NANSWERED | FDeleted => NDELETED | FDraft => NDRAFT
             | FFlagged => NFLAGGED | FSeen => NSEEN | FRecent => NRECENT end.
Definition unset_name (f : sysflag) : kname :=
  match f with FAnswered => NUNANSWERED | FDeleted => NUNDELETED | FDraft => NUNDRAFT
             | FFlagged => NUNFLAGGED | FSeen => NUNSEEN | FRecent => NOLD end.
Definition field_name (h : hfield) : kname :=
  match h with HBcc => NBCC | HCc => NCC | HFrom => NFROM | HSubject => NSUBJECT | HTo => NTO end.

Fixpoint compile (k : key) : skey :=
  match k with
  | KAll => SKAtom NALL FNone false
  | KSet f => SKAtom (set_name f) FNone false
  | KUnset f => SKAtom (unset_name f) FNone false
  | KNew => SKAtom NNEW FNone false
  | KKeyword f => SKAtom NKEYWORD (FFlag f) false
  | KUnkeyword f => SKAtom NUNKEYWORD (FFlag f) false
  | KBefore d => SKAtom NBEFORE (FDate d) false
  | KOn d => SKAtom NON (FDate d) false
  | KSince d => SKAtom NSINCE (FDate d) false
  | KSentBefore d => SKAtom NSENTBEFORE (FDate d) false
  | KSentOn d => SKAtom NSENTON (FDate d) false
  | KSentSince d => SKAtom NSENTSINCE (FDate d) false
  | KLarger n => SKAtom NLARGER (FInt n) false
  | KSmaller n => SKAtom NSMALLER (FInt n) false
  | KHeader n v => SKAtom NHEADER (FHdr n v) false
  | KField h v => SKAtom (field_name h) (FStr v) false
  | KBody s => SKAtom NBODY (FStr s) false
  | KText s => SKAtom NTEXT (FStr s) false
  | KUid s => SKAtom NSEQSET (FSeq true s) false
  | KSeq s => SKAtom NSEQSET (FSeq false s) false
  | KEmailId id => SKAtom NEMAILID (FObj id) false
  | KThreadId id => SKAtom NTHREADID (FObj id) false
  | KNot k' => not_inverse (compile k')
  | KOr a b => SKOr (compile a) (compile b) false
  | KAnd ks => SKSet (map compile ks) false
  end.

(* header names reach  name.encode('ascii')  in HeaderSearchCriteria; a
   parenthesised list has at least one key (RFC 3501 grammar, enforced by the
   parser: KeyTable.keyset_nonempty) *)
Fixpoint wf_key (k : key) : bool :=
  match k with
  | KHeader n _ => is_ascii n
  | KNot k' => wf_key k'
  | KOr a b => wf_key a && wf_key b
  | KAnd ks => match ks with [] => false | _ => forallb wf_key ks end   (* "()" is refused *)
  | _ => true
  end.

(* ---- decidable equality of parser values (for the parser correspondence) *)
Definition kname_tag (n : kname) : N :=
  match n with
  | NSEQSET => 0 | NKEYSET => 1 | NALL => 2 | NOR => 3 | NEMAILID => 4 | NTHREADID => 5
  | NANSWERED => 6 | NUNANSWERED => 7 | NDELETED => 8 | NUNDELETED => 9 | NDRAFT => 10
  | NUNDRAFT => 11 | NFLAGGED => 12 | NUNFLAGGED => 13 | NRECENT => 14 | NOLD => 15
  | NSEEN => 16 | NUNSEEN => 17 | NKEYWORD => 18 | NUNKEYWORD => 19 | NNEW => 20
  | NBEFORE => 21 | NON => 22 | NSINCE => 23 | NSENTBEFORE => 24 | NSENTON => 25
  | NSENTSINCE => 26 | NSMALLER => 27 | NLARGER => 28 | NBCC => 29 | NCC => 30
  | NFROM => 31 | NSUBJECT => 32 | NTO => 33 | NHEADER => 34 | NBODY => 35 | NTEXT => 36
  end%N.
Definition kname_eqb (a b : kname) : bool := (kname_tag a =? kname_tag b)%N.

Definition date_eqb (a b : date) : bool :=
  let '(y1, m1, d1) := a in let '(y2, m2, d2) := b in
  ((y1 =? y2) && (m1 =? m2) && (d1 =? d2))%N.

Definition seqset_eqb : seqset -> seqset -> bool := eqb_list selem_eqb.

Definition afilt_eqb (a b : afilt) : bool :=
  match a, b with
  | FNone, FNone => true
  | FSeq u1 s1, FSeq u2 s2 => Bool.eqb u1 u2 && seqset_eqb s1 s2
  | FFlag x, FFlag y => bytes_eqb x y
  | FDate x, FDate y => date_eqb x y
  | FInt x, FInt y => (x =? y)%N
  | FStr x, FStr y => bytes_eqb x y
  | FHdr n1 v1, FHdr n2 v2 => bytes_eqb n1 n2 && bytes_eqb v1 v2
  | FObj x, FObj y => bytes_eqb x y
  | _, _ => false
  end.

Fixpoint skey_eqb (a b : skey) : bool :=
  match a, b with
  | SKAtom n1 f1 i1, SKAtom n2 f2 i2 => kname_eqb n1 n2 && afilt_eqb f1 f2 && Bool.eqb i1 i2
  | SKSet l1 i1, SKSet l2 i2 =>
    (fix go (l1 l2 : list skey) : bool :=
       match l1, l2 with
       | [], [] => true
       | x :: r1, y :: r2 => skey_eqb x y && go r1 r2
       | _, _ => false
       end) l1 l2 && Bool.eqb i1 i2
  | SKOr a1 b1 i1, SKOr a2 b2 i2 => skey_eqb a1 a2 && skey_eqb b1 b2 && Bool.eqb i1 i2
  | _, _ => false
  end.
