(* Search/Text.v — strings as the SEARCH criteria see them.
   Models  SearchCriteria._in  (pymap/search.py):
       re.search(re.escape(substr), data, re.I | re.A) is not None      (str)
   and the byte search of BaseLoadedMessage.contains (pymap/message.py):
       re.compile(re.escape(value), re.I).search(data)                   (bytes)
   Both are "some position of data carries substr, comparing characters
   after folding the 26 ASCII capitals" (re.A restricts re.I to ASCII for
   str; bytes patterns fold ASCII only).  str = list of code points,
   bytes = list of octets, both [list N].  Definitions only. *)
From PV Require Import Base.Prelude.

Definition str := list N.

Definition is_upper (c : N) : bool := ((65 <=? c) && (c <=? 90))%N.
Definition fold (c : N) : N := if is_upper c then (c + 32)%N else c.
Definition lower (s : list N) : list N := map fold s.      (* bytes.lower() on ASCII *)

Definition ci_eqb (a b : list N) : bool := eqb_list N.eqb (lower a) (lower b).

Fixpoint prefix_ci (p s : list N) : bool :=
  match p, s with
  | [], _ => true
  | _ :: _, [] => false
  | a :: p', b :: s' => (fold a =? fold b)%N && prefix_ci p' s'
  end.

Fixpoint contains_ci (p s : list N) : bool :=
  prefix_ci p s || match s with [] => false | _ :: s' => contains_ci p s' end.

(* bytes(value, 'utf-8', 'replace'): lone surrogates become '?' *)
Definition utf8_cp (c : N) : list N :=
  (if c <? 128 then [c]
   else if c <? 2048 then [192 + c / 64; 128 + c mod 64]
   else if (55296 <=? c) && (c <=? 57343) then [63]
   else if c <? 65536 then [224 + c / 4096; 128 + (c / 64) mod 64; 128 + c mod 64]
   else [240 + c / 262144; 128 + (c / 4096) mod 64; 128 + (c / 64) mod 64; 128 + c mod 64])%N.
Definition utf8_encode (s : str) : bytes := flat_map utf8_cp s.

(* str.encode('ascii'): UnicodeEncodeError (Exc 3) on a code point >= 128 *)
Definition EXC_NOTALLOWED : N := 1.   (* SearchNotAllowed  -> NO [CANNOT] *)
Definition EXC_TYPE : N := 2.         (* TypeError from SearchKey._get_filter *)
Definition EXC_UNICODE : N := 3.      (* UnicodeEncodeError *)
Definition is_ascii (s : str) : bool := forallb (fun c => c <? 128)%N s.
Definition encode_ascii (s : str) : result bytes :=
  if is_ascii s then Ok s else Exc EXC_UNICODE.
