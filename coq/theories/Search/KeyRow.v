(* Search/KeyRow.v — row types of the generated tables (Search/KeyTable.v,
   written by harness/searchtable.py from the code of /repo).  Definitions only.

   grow: one keyword of SearchKey.parse's `if key in (...)` chain: the keyword,
         the shape of its arguments (which sub-parsers the branch calls) and
         the key name the branch constructs.
   drow: one key name: SearchKey.requirement (FetchRequirement bits; for the two
         recursive keys the value without children, to which the children's
         are or-ed) and the criteria object SearchCriteria.of builds: class and
         constant constructor arguments. *)
From Coq Require Import String.
From PV Require Import Base.Prelude Search.Keys.

Inductive shape :=
| ShNone            (* no argument *)
| ShStr             (* SP astring *)
| ShHdr             (* SP astring SP astring *)
| ShObj             (* SP objectid *)
| ShDate            (* SP date *)
| ShKeyword         (* SP flag-keyword, system flags refused *)
| ShInt             (* SP number *)
| ShUidSet          (* SP sequence-set, parsed with uid=True *)
| ShOr.             (* SP search-key SP search-key *)

Inductive critk :=
| CkAll | CkSeq | CkKeySet | CkOr | CkEmailId | CkThreadId
| CkFlag (f : sysflag) (expected : bool)       (* HasFlagSearchCriteria(<constant flag>, expected) *)
| CkKeyword (expected : bool)                  (* HasFlagSearchCriteria(key.filter_flag, expected) *)
| CkNew
| CkDate (op : dop) | CkHdrDate (op : dop)
| CkSize (op : sop)
| CkEnv (h : hfield)
| CkHeader
| CkBody (with_header : bool).

Record grow := mk_grow { g_word : string; g_shape : shape; g_name : kname }.
Record drow := mk_drow { d_name : kname; d_req : N; d_crit : critk }.

Fixpoint find_drow (t : list drow) (n : kname) : option drow :=
  match t with
  | [] => None
  | r :: rest => if kname_eqb (d_name r) n then Some r else find_drow rest n
  end.

Fixpoint find_grow (t : list grow) (w : string) : option grow :=
  match t with
  | [] => None
  | r :: rest => if String.eqb (g_word r) w then Some r else find_grow rest w
  end.

Definition shape_tag (s : shape) : N :=
  match s with ShNone => 0 | ShStr => 1 | ShHdr => 2 | ShObj => 3 | ShDate => 4
             | ShKeyword => 5 | ShInt => 6 | ShUidSet => 7 | ShOr => 8 end%N.
Definition shape_eqb (a b : shape) : bool := (shape_tag a =? shape_tag b)%N.
