(* Search/SearchCheck.v — boolean case checkers for the correspondence run
   (harness/props/C13.py).  Each case carries what was observed on the real
   implementation; the model recomputes it under vm_compute. *)
From PV Require Import Base.Prelude Wire.SeqSet Search.Text Search.Keys Search.Msg
     Search.Spec Search.Model.

(* one query on a view: (UID SEARCH?, program, ids of the SEARCH response sorted
   ascending).  The hypotheses of the theorems (wf_key) are checked too, and
   the RFC evaluator is run next to the model. *)
Definition chk_query (v : view) (c : bool * list key * list N) : bool :=
  let '(uid, prog, obs) := c in
  forallb wf_key prog &&
  match search_model [] 0 uid (map compile prog) v with
  | Ok r => eqb_list N.eqb r obs && eqb_list N.eqb (spec_search uid prog v) obs
  | _ => false
  end.

(* a probed view with all the queries that were run on it *)
Definition chk_view (c : view * list (bool * list key * list N)) : bool :=
  wf_view (fst c) && forallb (chk_query (fst c)) (snd c).

Definition chk_view_query (c : view * (bool * list key * list N)) : bool :=
  wf_view (fst c) && chk_query (fst c) (snd c).

(* parser level: the SearchKey values the real SearchCommand.parse built for the
   wire form of a program (a frozenset: compared as sets) *)
Definition subset_keys (a b : list skey) : bool :=
  forallb (fun x => existsb (skey_eqb x) b) a.
Definition chk_parse (c : list key * list skey) : bool :=
  let want := map compile (fst c) in
  subset_keys want (snd c) && subset_keys (snd c) want.

(* SearchCriteria._in(substr, data) on str, and the bytes search of contains() *)
Definition chk_in (c : list N * list N * bool) : bool :=
  let '(needle, hay, obs) := c in Bool.eqb (contains_ci needle hay) obs.

(* bytes(value, 'utf-8', 'replace') *)
Definition chk_utf8 (c : str * bytes) : bool := bytes_eqb (utf8_encode (fst c)) (snd c).

(* disabled keys: (config.disable_search_keys, program, the server answered
   NO [CANNOT]); otherwise of() succeeded *)
Definition chk_disabled (c : list kname * list key * bool) : bool :=
  let '(dis, prog, refused) := c in
  match crits_of dis (mkParams 0 0) (map compile prog) with
  | Ok _ => negb refused
  | Exc 1 => refused
  | _ => false
  end.
