(* Search/SearchCheck.v — boolean case checkers for the correspondence run
   (harness/props/C13.py).  Each case carries what was observed on the real
   implementation; the model recomputes it under vm_compute. *)
From PV Require Import Base.Prelude Wire.SeqSet Search.Text Search.Keys Search.Msg
     Search.Spec Search.Model.

(* parser level: the SearchKey values the real SearchCommand.parse built for the
   wire form of a program (a frozenset: compared as sets) *)
Definition subset_keys (a b : list skey) : bool :=
  forallb (fun x => existsb (skey_eqb x) b) a.
Definition chk_parse (c : list key * list skey) : bool :=
  let want := map compile (fst c) in
  subset_keys want (snd c) && subset_keys (snd c) want.

(* one query on a view: (UID SEARCH?, program, ids of the SEARCH response sorted
   ascending, the parser's values).  The hypotheses of the theorems (wf_key)
   are checked too, and the RFC evaluator is run next to the model. *)
Definition query := (bool * list key * list N * list skey)%type.
Definition chk_query (v : view) (c : query) : bool :=
  let '(uid, prog, obs, parsed) := c in
  forallb wf_key prog && chk_parse (prog, parsed) &&
  match search_model [] 0 uid (map compile prog) v with
  | Ok r => eqb_list N.eqb r obs && eqb_list N.eqb (spec_search uid prog v) obs
  | _ => false
  end.

(* A case is one mailbox: the immutable part of every message that was ever
   probed (by UID) and the probed views (UID, sequence number, flags) with the
   queries that ran on each. *)
Record content := mkContent {
  c_size : N; c_idate : date; c_sdate : option date;
  c_headers : list (bytes * str); c_parts : list part;
  c_emailid : bytes; c_threadid : bytes }.
Definition pool := list (N * content).
Definition entry := (N * N * list bytes)%type.          (* uid, seq, flags *)

Fixpoint lookup (p : pool) (uid : N) : option content :=
  match p with
  | [] => None
  | (u, c) :: r => if (u =? uid)%N then Some c else lookup r uid
  end.

Fixpoint build_view (p : pool) (es : list entry) : option view :=
  match es with
  | [] => Some []
  | (uid, seq, flags) :: r =>
    match lookup p uid, build_view p r with
    | Some c, Some v =>
      Some (mkMsg uid seq flags (c_size c) (c_idate c) (c_sdate c) (c_headers c)
                  (c_parts c) (c_emailid c) (c_threadid c) :: v)
    | _, _ => None
    end
  end.

Definition chk_box (c : pool * list (list entry * list query)) : bool :=
  forallb (fun vq => match build_view (fst c) (fst vq) with
                     | Some v => wf_view v && forallb (chk_query v) (snd vq)
                     | None => false
                     end) (snd c).

Definition chk_box_query (c : pool * list entry * query) : bool :=
  let '(p, es, q) := c in
  match build_view p es with
  | Some v => wf_view v && chk_query v q
  | None => false
  end.

(* SearchCriteria._in(substr, data) on str, and the bytes search of contains() *)
Definition chk_in (c : list N * list N * bool) : bool :=
  let '(needle, hay, obs) := c in Bool.eqb (contains_ci needle hay) obs.

(* bytes(value, 'utf-8', 'replace') *)
Definition chk_utf8 (c : str * bytes) : bool := bytes_eqb (utf8_encode (fst c)) (snd c).

(* disabled keys: (config.disable_search_keys, program, the server answered
   NO [CANNOT]); otherwise of() succeeded *)
Definition chk_disabled (c : list kname * list key * bool) : bool :=
  let '(dis, prog, refused) := c in
  match crits_of dis (mkParams 0 0) (map compile prog) with
  | Ok _ => negb refused
  | Exc 1 => refused
  | _ => false
  end.
