(* Search/SearchCheck.v — boolean case checkers for the correspondence run
   (harness/props/C13.py).  Each case carries what was observed on the real
   implementation; the model recomputes it under vm_compute. *)
From PV Require Import Base.Prelude Wire.SeqSet Search.Text Search.Keys Search.SentDate
     Search.Msg Search.Spec Search.Model.

(* parser level: the SearchKey values the real SearchCommand.parse built for the
   wire form of a program (a frozenset: compared as sets) *)
Definition subset_keys (a b : list skey) : bool :=
  forallb (fun x => existsb (skey_eqb x) b) a.
Definition chk_parse (c : list key * list skey) : bool :=
  let want := map compile (fst c) in
  subset_keys want (snd c) && subset_keys (snd c) want.

(* one query on a view: (UID SEARCH?, program, ids of the SEARCH response sorted
   ascending, the parser's values each with its SearchKey.requirement).  The hypotheses of the theorems (wf_key)
   are checked too, and the RFC evaluator is run next to the model. *)
Definition query := (bool * list key * list N * option (list (skey * N)))%type.
Definition chk_parsed (prog : list key) (parsed : option (list (skey * N))) : bool :=
  match parsed with
  | None => true                 (* not sampled (compared on the Python side only) *)
  | Some l => chk_parse (prog, map fst l) &&
              forallb (fun kr => (requirement (fst kr) =? snd kr)%N) l
  end.
Definition chk_query_on (always : bool) (v : view) (c : query) : bool :=
  let '(uid, prog, obs, parsed) := c in
  forallb wf_key prog && chk_parsed prog parsed &&
  match search_backend always [] 0 uid (map compile prog) v with
  | Ok r => eqb_list N.eqb r obs && eqb_list N.eqb (spec_search uid prog v) obs
  | _ => false
  end.
Definition chk_query := chk_query_on true.

(* A case is one mailbox: the distinct message contents that were ever probed
   (a pool, so that views share them) and the probed views (content id, UID,
   sequence number, flags) with the queries that ran on each. *)
Record content := mkContent {
  c_size : N; c_idate : date; c_rawdate : option str; c_sdate : option date;
  c_headers : list (bytes * str); c_parts : list part;
  c_emailid : bytes; c_threadid : bytes }.
Definition pool := list (N * content).                  (* content id -> content *)
Definition entry := (N * N * N * list bytes)%type.      (* content id, uid, seq, flags *)

Fixpoint lookup (p : pool) (cid : N) : option content :=
  match p with
  | [] => None
  | (u, c) :: r => if (u =? cid)%N then Some c else lookup r cid
  end.

Fixpoint build_view (p : pool) (es : list entry) : option view :=
  match es with
  | [] => Some []
  | (cid, uid, seq, flags) :: r =>
    match lookup p cid, build_view p r with
    | Some c, Some v =>
      Some (mkMsg uid seq flags (c_size c) (c_idate c) (c_rawdate c) (c_sdate c) (c_headers c)
                  (c_parts c) (c_emailid c) (c_threadid c) :: v)
    | _, _ => None
    end
  end.

Definition chk_box_on (always : bool) (c : pool * list (list entry * list query)) : bool :=
  forallb (fun vq => match build_view (fst c) (fst vq) with
                     | Some v => wf_view v && forallb (chk_query_on always v) (snd vq)
                     | None => false
                     end) (snd c).
Definition chk_box := chk_box_on true.             (* dict: content always loaded *)
Definition chk_box_maildir := chk_box_on false.    (* maildir: loaded on request *)

Definition chk_box_query_on (always : bool) (c : pool * list entry * query) : bool :=
  let '(p, es, q) := c in
  match build_view p es with
  | Some v => wf_view v && chk_query_on always v q
  | None => false
  end.
Definition chk_box_query := chk_box_query_on true.
Definition chk_box_query_maildir := chk_box_query_on false.

(* SearchCriteria._in(substr, data) on str, and the bytes search of contains() *)
Definition chk_in (c : list N * list N * bool) : bool :=
  let '(needle, hay, obs) := c in Bool.eqb (contains_ci needle hay) obs.

(* bytes(value, 'utf-8', 'replace') *)
Definition chk_utf8 (c : str * bytes) : bool := bytes_eqb (utf8_encode (fst c)) (snd c).

(* disabled keys: (config.disable_search_keys, program, the server answered
   NO [CANNOT]); otherwise of() succeeded *)
Definition chk_disabled (c : list kname * list key * bool) : bool :=
  let '(dis, prog, refused) := c in
  match crits_of dis (mkParams 0 0) (map compile prog) with
  | Ok _ => negb refused
  | Exc 1 => refused
  | _ => false
  end.

(* the date-parser model against the stdlib on one Date: value: (source value,
   observed date, the value is a plain RFC 5322 date the model must cover) *)
Definition chk_sent_date (c : str * option date * bool) : bool :=
  let '(v, obs, must) := c in
  match parse_sent_date v, obs with
  | SdUnmodelled, _ => negb must
  | SdSome d, Some o => date_eqb d o
  | SdNone, None => true
  | _, _ => false
  end.

(* MessageHeader._find_folded's key: (field name as written, key) *)
Definition chk_header_key (c : bytes * bytes) : bool := bytes_eqb (header_key (fst c)) (snd c).
