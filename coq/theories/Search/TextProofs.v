(* Search/TextProofs.v — facts about case-insensitive substring search,
   sequence-set membership and date comparison used by SearchProofs.v. *)
From PV Require Import Base.Prelude Wire.SeqSet Wire.SeqSetProofs
     Search.Text Search.Keys Search.Msg Search.Spec Search.Model.
From Coq Require Import Lia ZifyBool.

Lemma fold_idem c : fold (fold c) = fold c.
Proof.
  unfold fold, is_upper.
  destruct ((65 <=? c) && (c <=? 90))%N eqn:E; [|rewrite E; reflexivity].
  destruct ((65 <=? c + 32) && (c + 32 <=? 90))%N eqn:E2; [lia|reflexivity].
Qed.

Lemma lower_idem s : lower (lower s) = lower s.
Proof. unfold lower. rewrite map_map. apply map_ext. intros; apply fold_idem. Qed.

Lemma lower_app a b : lower (a ++ b) = lower a ++ lower b.
Proof. apply map_app. Qed.

Lemma prefix_ci_spec p s :
  prefix_ci p s = true <-> exists mid rest, s = mid ++ rest /\ lower mid = lower p.
Proof.
  revert s; induction p as [|a p IH]; intros s; cbn [prefix_ci].
  - split; [intros _; exists [], s; split; reflexivity|reflexivity].
  - destruct s as [|b s].
    + split; [discriminate|]. intros (mid & rest & E & L).
      destruct mid; [discriminate L|discriminate E].
    + rewrite andb_true_iff, IH, N.eqb_eq. split.
      * intros (F & mid & rest & -> & L). exists (b :: mid), rest. split; [reflexivity|].
        cbn [lower map]. f_equal; [symmetry; exact F|exact L].
      * intros (mid & rest & E & L). destruct mid as [|x mid]; [discriminate L|].
        cbn [lower map] in L. injection L as L1 L2. injection E as -> ->.
        split; [symmetry; exact L1|]. exists mid, rest. split; [reflexivity|exact L2].
Qed.

(* the model of re.search(re.escape(p), s, re.I | re.A): some position of s
   carries p up to ASCII case *)
Theorem contains_ci_spec p s :
  contains_ci p s = true <->
  exists a mid b, s = a ++ mid ++ b /\ lower mid = lower p.
Proof.
  induction s as [|c s IH]; cbn [contains_ci]; rewrite orb_true_iff.
  - split.
    + intros [H|H]; [|discriminate]. apply prefix_ci_spec in H as (mid & rest & E & L).
      exists [], mid, rest. split; [exact E|exact L].
    + intros (a & mid & b & E & L). left. apply prefix_ci_spec.
      destruct a; [|discriminate E]. exists mid, b. split; [exact E|exact L].
  - split.
    + intros [H|H].
      * apply prefix_ci_spec in H as (mid & rest & E & L). exists [], mid, rest. split; assumption.
      * apply IH in H as (a & mid & b & -> & L). exists (c :: a), mid, b. split; [reflexivity|exact L].
    + intros (a & mid & b & E & L). destruct a as [|x a].
      * left. apply prefix_ci_spec. exists mid, b. split; assumption.
      * right. injection E as -> ->. apply IH. exists a, mid, b. split; [reflexivity|exact L].
Qed.

Lemma contains_ci_nil s : contains_ci [] s = true.
Proof. destruct s; reflexivity. Qed.

Lemma contains_ci_fold_needle p q s : lower p = lower q -> contains_ci p s = contains_ci q s.
Proof.
  intros E. apply eq_true_iff_eq. rewrite !contains_ci_spec.
  split; intros (a & mid & b & H & L); exists a, mid, b; (split; [exact H|congruence]).
Qed.

(* case only matters up to ASCII folding, on both sides *)
Lemma contains_ci_lower p s : contains_ci (lower p) (lower s) = contains_ci p s.
Proof.
  apply eq_true_iff_eq. rewrite !contains_ci_spec. split.
  - intros (a & mid & b & H & L). rewrite lower_idem in L.
    unfold lower in H. apply map_eq_app in H as (a' & r & -> & <- & H2).
    apply map_eq_app in H2 as (mid' & b' & -> & <- & <-).
    exists a', mid', b'. split; [reflexivity|]. fold (lower mid') in L. rewrite lower_idem in L. exact L.
  - intros (a & mid & b & -> & L). exists (lower a), (lower mid), (lower b).
    rewrite !lower_app. split; [reflexivity|]. rewrite !lower_idem. exact L.
Qed.

(* ---- sequence sets *)
Lemma mem_N_In n l : mem_N n l = true <-> In n l.
Proof.
  unfold mem_N. rewrite existsb_exists. split.
  - intros (x & Hx & E). apply N.eqb_eq in E. subst. exact Hx.
  - intros H. exists n. split; [exact H|apply N.eqb_refl].
Qed.

Lemma elem_has_denotes mx e n : (n <= mx)%N ->
  (elem_has mx n e = true <-> elem_denotes mx e n).
Proof.
  intros Hn. destruct e as [i|a b]; cbn [elem_has elem_denotes].
  - rewrite N.eqb_eq. tauto.
  - rewrite andb_true_iff, !N.leb_le. tauto.
Qed.

Theorem set_has_iter mx s n : (n <= mx)%N -> mem_N n (seq_iter mx s) = set_has mx s n.
Proof.
  intros Hn. apply eq_true_iff_eq. rewrite mem_N_In, flatten_spec.
  unfold denotes, set_has. rewrite existsb_exists. split.
  - intros (e & He & D). exists e. split; [exact He|]. apply elem_has_denotes; assumption.
  - intros (e & He & D). exists e. split; [exact He|]. apply elem_has_denotes in D; assumption.
Qed.

(* ---- dates *)
Lemma date_op_lt a b : date_op DLt a b = date_ltb a b.
Proof.
  destruct a as [[y1 m1] d1], b as [[y2 m2] d2]. unfold date_op, date_cmp, date_ltb.
  destruct (N.compare_spec y1 y2), (N.compare_spec m1 m2), (N.compare_spec d1 d2); lia.
Qed.

Lemma date_op_eq a b : date_op DEq a b = date_eqb a b.
Proof.
  destruct a as [[y1 m1] d1], b as [[y2 m2] d2]. unfold date_op, date_cmp, date_eqb.
  destruct (N.compare_spec y1 y2), (N.compare_spec m1 m2), (N.compare_spec d1 d2); lia.
Qed.

Lemma date_op_ge a b : date_op DGe a b = date_eqb a b || date_ltb b a.
Proof.
  destruct a as [[y1 m1] d1], b as [[y2 m2] d2]. unfold date_op, date_cmp, date_eqb, date_ltb.
  destruct (N.compare_spec y1 y2), (N.compare_spec m1 m2), (N.compare_spec d1 d2); lia.
Qed.

(* SINCE is the complement of BEFORE, ON is neither before nor after *)
Lemma date_trichotomy a b :
  (date_ltb a b = true /\ date_eqb a b = false /\ date_ltb b a = false) \/
  (date_ltb a b = false /\ date_eqb a b = true /\ date_ltb b a = false) \/
  (date_ltb a b = false /\ date_eqb a b = false /\ date_ltb b a = true).
Proof.
  destruct a as [[y1 m1] d1], b as [[y2 m2] d2]. unfold date_eqb, date_ltb.
  destruct (N.compare_spec y1 y2), (N.compare_spec m1 m2), (N.compare_spec d1 d2); lia.
Qed.
