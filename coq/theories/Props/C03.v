(* Props/C03.v — Message bytes are stored and returned verbatim.
   Only statements, each closed by [exact] and followed by Print Assumptions.

   d  : the appended literal (any byte string);
   ct : the Content-Type decisions of stdlib email (any function);
   c  : the MessageContent the parse builds (it always builds one). *)
From PV Require Import Base.Prelude Base.Decimal
     Mime.Lines Mime.Parts Mime.Fields Mime.LinesProofs Mime.PartsProofs Mime.FieldsProofs.

(* the line index tiles the literal: contiguous from 0 to len(d), the spans
   concatenate to d, no line text contains LF and every terminator is LF,
   CR LF, or (last line) empty *)
Theorem C03_lines_cover : forall d,
  chain 0 (find_lines d) (length d)
  /\ concat (map (line_span d) (find_lines d)) = d
  /\ Forall (fun l => ~ In LF (slice d (l_start l) (l_end l))
                      /\ good_term (slice d (l_end l) (l_next l)))
            (find_lines d).
Proof. exact lines_cover. Qed.
Print Assumptions C03_lines_cover.

(* MessageContent.parse ends on every input, to any nesting depth *)
Theorem C03_parse_total : forall d ct, exists c, parse d ct = Ok c.
Proof. exact st_parse_total. Qed.
Print Assumptions C03_parse_total.

(* BODY[] / RFC822 = the literal *)
Theorem C03_content_verbatim : forall d ct c,
  parse d ct = Ok c -> fetch_body d c [] = d.
Proof. exact st_content_verbatim. Qed.
Print Assumptions C03_content_verbatim.

(* BODY[HEADER] ++ BODY[TEXT] = the literal *)
Theorem C03_header_text_split : forall d ct c,
  parse d ct = Ok c -> fetch_header d c [] ++ fetch_text d c [] = d.
Proof. exact st_header_text_split. Qed.
Print Assumptions C03_header_text_split.

(* BODY[]<o.n> = d[o:o+n] *)
Theorem C03_partial_slice : forall d ct c o n,
  parse d ct = Ok c ->
  get_partial (fetch_body d c []) (Some (o, n)) = firstn n (skipn o d).
Proof. exact st_partial_slice. Qed.
Print Assumptions C03_partial_slice.

(* RFC822.SIZE = len(d) *)
Theorem C03_rfc822_size : forall d ct c,
  parse d ct = Ok c -> size_of d c = length d.
Proof. exact st_rfc822_size. Qed.
Print Assumptions C03_rfc822_size.

(* the literal prefix announces exactly the payload length: a reader that
   takes "{" number "}" CRLF and then that many octets gets the payload
   back and leaves the rest of the stream untouched *)
Theorem C03_literal_len : forall p rest,
  read_literal (print_literal p ++ rest) = Some (p, rest).
Proof. exact read_print_literal. Qed.
Print Assumptions C03_literal_len.

(* what a client reads from the literal printed for BODY[] / BODY[]<o.n> *)
Theorem C03_fetch_roundtrip : forall d ct c o rest,
  parse d ct = Ok c ->
  read_literal (print_literal (get_partial (fetch_body d c []) o) ++ rest)
  = Some (match o with None => d | Some (a, n) => firstn n (skipn a d) end, rest).
Proof. exact st_fetch_roundtrip. Qed.
Print Assumptions C03_fetch_roundtrip.

(* octets announced for the part numbered p (RFC 3501 6.4.5 numbering of the
   announced structure, through multipart and message/rfc822 to any depth)
   = len(BODY[p.MIME]) + len(BODY[p]) — on every message *)
Theorem C03_part_octets_partial : forall d ct c b p n,
  parse d ct = Ok c -> body_structure d c = Some b -> In (p, n) (rfc_parts b) ->
  n = length (fetch_mime d c p) + length (fetch_body d c p).
Proof. exact st_part_octets. Qed.
Print Assumptions C03_part_octets_partial.

(* hence the clause of the statement for parts without a MIME header; the
   clause is false for the others (C03_part_octets_refuted, finding C03-F2) *)
Theorem C03_part_octets : forall d ct c b p n,
  parse d ct = Ok c -> body_structure d c = Some b -> In (p, n) (rfc_parts b) ->
  fetch_mime d c p = [] -> n = length (fetch_body d c p).
Proof. exact st_part_octets_no_header. Qed.
Print Assumptions C03_part_octets.

(* for whatever node a section reaches: the size computed for it is
   len(BODY[p.MIME]) + len(BODY[p]) *)
Theorem C03_part_octets_walk : forall d ct c p s n,
  parse d ct = Ok c -> p <> [] -> get_subpart c p = Some s ->
  node_announced d s = Some n ->
  n = length (fetch_mime d c p) + length (fetch_body d c p).
Proof. exact st_part_octets_walk. Qed.
Print Assumptions C03_part_octets_walk.

(* finding C03-F2: the announced octets include the part's own header *)
Theorem C03_part_octets_refuted :
  exists d ct c b p n,
    parse d ct = Ok c /\ body_structure d c = Some b
    /\ In (p, n) (rfc_parts b) /\ n <> length (fetch_body d c p).
Proof. exact st_part_octets_refuted. Qed.
Print Assumptions C03_part_octets_refuted.

(* numbering through message/rfc822 (findings C03-F4/F5 repaired): the
   enclosed message is part 1, its body part 1.1 *)
Theorem C03_part_numbering_example :
  exists c b, parse wit_rfc wit_rfc_ct = Ok c /\ body_structure wit_rfc c = Some b
    /\ rfc_parts b = [([1], 11); ([1; 1], 6)]
    /\ fetch_mime wit_rfc c [1] = [67; 58; 109; 10; 10]%N
    /\ fetch_body wit_rfc c [1] = [83; 58; 105; 10; 10; 120]%N
    /\ fetch_header wit_rfc c [1] = [83; 58; 105; 10; 10]%N
    /\ fetch_text wit_rfc c [1] = [120]%N
    /\ fetch_mime wit_rfc c [1; 1] = [83; 58; 105; 10; 10]%N
    /\ fetch_body wit_rfc c [1; 1] = [120]%N.
Proof. exact ex_rfc_ok. Qed.
Print Assumptions C03_part_numbering_example.

(* line count announced for the message = number of LF octets of the whole
   literal (header lines included) *)
Theorem C03_lines_announced : forall d ct c,
  parse d ct = Ok c -> lines_of c = Z.of_nat (count_lf d).
Proof. exact st_lines_top. Qed.
Print Assumptions C03_lines_announced.

(* finding C03-F6: it is not the number of lines of BODY[1] *)
Theorem C03_lines_refuted :
  exists d ct c n l,
    parse d ct = Ok c /\ body_structure d c = Some (BsText n l)
    /\ l <> Z.of_nat (count_lf (fetch_body d c [1])).
Proof. exact st_lines_refuted. Qed.
Print Assumptions C03_lines_refuted.

(* RFC822 = d; RFC822.HEADER / RFC822.TEXT are BODY[HEADER] / BODY[TEXT] and
   concatenate to d *)
Theorem C03_rfc822_aliases : forall d ct c,
  parse d ct = Ok c ->
  fetch_rfc822 d c = d /\ fetch_rfc822_header d c = fetch_header d c []
  /\ fetch_rfc822_text d c = fetch_text d c []
  /\ fetch_rfc822_header d c ++ fetch_rfc822_text d c = d.
Proof. exact st_rfc822_aliases. Qed.
Print Assumptions C03_rfc822_aliases.

(* BINARY[] / BINARY.SIZE[] with an identity Content-Transfer-Encoding (none,
   7bit, 8bit, binary): the literal, its length *)
Theorem C03_binary_full : forall d ct identity c,
  parse d ct = Ok c -> identity c = true ->
  fetch_binary d identity c [] = Some d /\ binary_size d identity c [] = Some (length d).
Proof. exact st_binary_full. Qed.
Print Assumptions C03_binary_full.

(* BINARY[p] / BINARY.SIZE[p] of a part with an identity encoding = BODY[p] *)
Theorem C03_binary_part : forall d identity c p s,
  p <> [] -> get_subpart c p = Some s -> identity s = true ->
  fetch_binary d identity c p = Some (fetch_body d c p)
  /\ binary_size d identity c p = Some (length (fetch_body d c p)).
Proof. exact st_binary_part. Qed.
Print Assumptions C03_binary_part.

(* the literal8 framing of BINARY items *)
Theorem C03_literal8_len : forall p rest,
  read_literal8 (print_literal8 p ++ rest) = Some (p, rest).
Proof. exact read_print_literal8. Qed.
Print Assumptions C03_literal8_len.

(* BODY[HEADER.FIELDS (..)] / BODY[HEADER.FIELDS.NOT (..)]: the raw bytes of
   some of the header's field groups (a field line and its continuation
   lines), in their order, then CR LF; the field groups tile a range of the
   header, so each is a run of consecutive header lines, verbatim *)
Theorem C03_header_fields : forall d ct c subset inverse,
  parse d ct = Ok c ->
  exists gs a1 m1,
    fetch_fields d c [] subset inverse
      = concat (map (fun g => get_raw d [g]) gs) ++ [13%N; 10%N]
    /\ sublist gs (find_folds d (c_hl c))
    /\ gchain a1 (find_folds d (c_hl c)) m1
    /\ m1 <= length (header_of d c)
    /\ concat (map (fun g => get_raw d [g]) (find_folds d (c_hl c))) = slice d a1 m1.
Proof. exact st_header_fields. Qed.
Print Assumptions C03_header_fields.

Theorem C03_header_fields_example :
  exists c, parse ex_fields (fun _ => CtText) = Ok c
    /\ fetch_fields ex_fields c [] [[66%N]] false = [98; 58; 10; 13; 10]%N
    /\ fetch_fields ex_fields c [] [[66%N]] true = [65; 58; 49; 10; 32; 50; 10; 13; 10]%N
    /\ fetch_fields ex_fields c [] [[122%N]] true
       = [65; 58; 49; 10; 32; 50; 10; 98; 58; 10; 13; 10]%N.
Proof. exact ex_fields_ok. Qed.
Print Assumptions C03_header_fields_example.

(* dict COPY / MOVE: the copy holds the same content object *)
Theorem C03_copy_shares : forall m u,
  dm_content (dict_copy m u) = dm_content m /\ dm_data (dict_copy m u) = dm_data m.
Proof. exact dict_copy_shares. Qed.
Print Assumptions C03_copy_shares.

(* maildir APPEND / COPY / MOVE then load: the literal (files are written and
   read byte for byte; [rd] is stdlib get_bytes' os.linesep -> LF replacement,
   the identity on POSIX) *)
Theorem C03_maildir_verbatim : forall rd : bytes -> bytes,
  (forall x, rd x = x) ->
  forall lit, md_load rd (md_append lit) = lit
              /\ md_load rd (md_copy rd (md_append lit)) = lit
              /\ md_load rd (md_move (md_append lit)) = lit.
Proof. exact st_maildir_verbatim. Qed.
Print Assumptions C03_maildir_verbatim.

(* the hypotheses of C03_part_octets hold of a real multipart message *)
Theorem C03_part_octets_example :
  exists c, parse ex_multi ex_multi_ct = Ok c
            /\ body_structure ex_multi c = Some (BsMulti [BsText 8 2%Z; BsText 2 0%Z])
            /\ rfc_parts (BsMulti [BsText 8 2%Z; BsText 2 0%Z]) = [([1], 8); ([2], 2)]
            /\ fetch_body ex_multi c [1] = [104; 105; 10]%N
            /\ fetch_mime ex_multi c [2] = []
            /\ fetch_body ex_multi c [2] = [121; 10]%N.
Proof. exact ex_multi_ok. Qed.
Print Assumptions C03_part_octets_example.
