(* Props/C03.v — Message bytes are stored and returned verbatim.
   Only statements, each closed by [exact] and followed by Print Assumptions.

   d  : the appended literal (any byte string);
   ct : the Content-Type decisions of stdlib email (any function);
   c  : the MessageContent the parse builds (it always builds one). *)
From PV Require Import Base.Prelude Base.Decimal
     Mime.Lines Mime.Parts Mime.LinesProofs Mime.PartsProofs.

(* the line index tiles the literal: contiguous from 0 to len(d), the spans
   concatenate to d, no line text contains LF and every terminator is LF,
   CR LF, or (last line) empty *)
Theorem C03_lines_cover : forall d,
  chain 0 (find_lines d) (length d)
  /\ concat (map (line_span d) (find_lines d)) = d
  /\ Forall (fun l => ~ In LF (slice d (l_start l) (l_end l))
                      /\ good_term (slice d (l_end l) (l_next l)))
            (find_lines d).
Proof. exact lines_cover. Qed.
Print Assumptions C03_lines_cover.

(* MessageContent.parse ends on every input, to any nesting depth *)
Theorem C03_parse_total : forall d ct, exists c, parse d ct = Ok c.
Proof. exact st_parse_total. Qed.
Print Assumptions C03_parse_total.

(* BODY[] / RFC822 = the literal *)
Theorem C03_content_verbatim : forall d ct c,
  parse d ct = Ok c -> fetch_body d c [] = d.
Proof. exact st_content_verbatim. Qed.
Print Assumptions C03_content_verbatim.

(* BODY[HEADER] ++ BODY[TEXT] = the literal *)
Theorem C03_header_text_split : forall d ct c,
  parse d ct = Ok c -> fetch_header d c [] ++ fetch_text d c [] = d.
Proof. exact st_header_text_split. Qed.
Print Assumptions C03_header_text_split.

(* BODY[]<o.n> = d[o:o+n] *)
Theorem C03_partial_slice : forall d ct c o n,
  parse d ct = Ok c ->
  get_partial (fetch_body d c []) (Some (o, n)) = firstn n (skipn o d).
Proof. exact st_partial_slice. Qed.
Print Assumptions C03_partial_slice.

(* RFC822.SIZE = len(d) *)
Theorem C03_rfc822_size : forall d ct c,
  parse d ct = Ok c -> size_of d c = length d.
Proof. exact st_rfc822_size. Qed.
Print Assumptions C03_rfc822_size.

(* the literal prefix announces exactly the payload length: a reader that
   takes "{" number "}" CRLF and then that many octets gets the payload
   back and leaves the rest of the stream untouched *)
Theorem C03_literal_len : forall p rest,
  read_literal (print_literal p ++ rest) = Some (p, rest).
Proof. exact read_print_literal. Qed.
Print Assumptions C03_literal_len.

(* what a client reads from the literal printed for BODY[] / BODY[]<o.n> *)
Theorem C03_fetch_roundtrip : forall d ct c o rest,
  parse d ct = Ok c ->
  read_literal (print_literal (get_partial (fetch_body d c []) o) ++ rest)
  = Some (match o with None => d | Some (a, n) => firstn n (skipn a d) end, rest).
Proof. exact st_fetch_roundtrip. Qed.
Print Assumptions C03_fetch_roundtrip.

(* octets announced for the part numbered p (RFC 3501 numbering of the
   printed structure) = len(BODY[p.MIME]) + len(BODY[p]), to any depth, when
   no part is message/rfc822 (see C03_part_numbering_refuted) and every
   multipart has a parsed sub-part (see C03_empty_multipart_refuted) *)
Theorem C03_part_octets_partial : forall d ct c b p n,
  parse d ct = Ok c -> no_rfc822 c -> no_empty_multi c -> body_structure d c = Some b ->
  In (p, n) (rfc_parts (bs_printed b)) ->
  n = length (fetch_mime d c p) + length (fetch_body d c p).
Proof. exact st_part_octets. Qed.
Print Assumptions C03_part_octets_partial.

(* hence the clause of the statement for parts without a MIME header; the
   clause is false for the others (C03_part_octets_refuted, finding C03-F2) *)
Theorem C03_part_octets : forall d ct c b p n,
  parse d ct = Ok c -> no_rfc822 c -> no_empty_multi c -> body_structure d c = Some b ->
  In (p, n) (rfc_parts (bs_printed b)) -> fetch_mime d c p = [] ->
  n = length (fetch_body d c p).
Proof. exact st_part_octets_no_header. Qed.
Print Assumptions C03_part_octets.

(* in the section numbering of _get_subpart itself the size computed for the
   node reached is len(BODY[p.MIME]) + len(BODY[p]) on every tree *)
Theorem C03_part_octets_walk : forall d ct c p s n,
  parse d ct = Ok c -> p <> [] -> get_subpart c p = Some s ->
  node_announced d s = Some n ->
  n = length (fetch_mime d c p) + length (fetch_body d c p).
Proof. exact st_part_octets_walk. Qed.
Print Assumptions C03_part_octets_walk.

(* finding C03-F2: the announced octets include the part's own header *)
Theorem C03_part_octets_refuted :
  exists d ct c b p n,
    parse d ct = Ok c /\ no_rfc822 c /\ no_empty_multi c /\ body_structure d c = Some b
    /\ In (p, n) (rfc_parts (bs_printed b)) /\ n <> length (fetch_body d c p).
Proof. exact st_part_octets_refuted. Qed.
Print Assumptions C03_part_octets_refuted.

(* finding C03-F4: through message/rfc822 the section numbers of
   _get_subpart are not those of RFC 3501 *)
Theorem C03_part_numbering_refuted :
  exists d ct c b p n,
    parse d ct = Ok c /\ no_empty_multi c /\ body_structure d c = Some b
    /\ In (p, n) (rfc_parts (bs_printed b))
    /\ n <> length (fetch_mime d c p) + length (fetch_body d c p).
Proof. exact st_part_numbering_refuted. Qed.
Print Assumptions C03_part_numbering_refuted.

(* finding C03-F5: a multipart without parsed sub-part is printed with an
   empty part 1 while BODY[1] returns the body of the multipart itself *)
Theorem C03_empty_multipart_refuted :
  exists d ct c b p n,
    parse d ct = Ok c /\ no_rfc822 c /\ body_structure d c = Some b
    /\ In (p, n) (rfc_parts (bs_printed b))
    /\ n <> length (fetch_mime d c p) + length (fetch_body d c p).
Proof. exact st_empty_multipart_refuted. Qed.
Print Assumptions C03_empty_multipart_refuted.

(* dict COPY / MOVE: the copy holds the same content object *)
Theorem C03_copy_shares : forall m u,
  dm_content (dict_copy m u) = dm_content m /\ dm_data (dict_copy m u) = dm_data m.
Proof. exact dict_copy_shares. Qed.
Print Assumptions C03_copy_shares.

(* maildir APPEND / COPY / MOVE then load: verbatim provided stdlib mailbox
   re-serialises the message unchanged (measured per message by the check) *)
Theorem C03_maildir_verbatim : forall ser : bytes -> bytes,
  (forall x, ser x = x) ->
  forall lit, md_load ser (md_append ser lit) = lit
              /\ md_load ser (md_copy ser (md_append ser lit)) = lit
              /\ md_load ser (md_move (md_append ser lit)) = lit.
Proof. exact st_maildir_verbatim. Qed.
Print Assumptions C03_maildir_verbatim.

(* finding C03-F3: it does not for a serialiser that rewrites CR LF *)
Theorem C03_maildir_refuted :
  exists ser lit, md_load ser (md_append ser lit) <> lit.
Proof. exact st_maildir_refuted. Qed.
Print Assumptions C03_maildir_refuted.

(* the hypotheses of C03_part_octets hold of a real multipart message *)
Theorem C03_part_octets_example :
  exists c, parse ex_multi ex_multi_ct = Ok c /\ no_rfc822 c /\ no_empty_multi c
            /\ body_structure ex_multi c = Some (BsMulti [BsText 8 2%Z; BsText 2 0%Z])
            /\ rfc_parts (BsMulti [BsText 8 2%Z; BsText 2 0%Z]) = [([1], 8); ([2], 2)]
            /\ fetch_body ex_multi c [1] = [104; 105; 10]%N
            /\ fetch_mime ex_multi c [2] = []
            /\ fetch_body ex_multi c [2] = [121; 10]%N.
Proof. exact ex_multi_ok. Qed.
Print Assumptions C03_part_octets_example.
