(* Props/C10.v — message commands behave as the IMAP reference model says.
   Statements only; proofs in RefModel/*Proofs.v, Sim*.v.
     Model.v : one session's message commands as pymap executes them (view of the
               selected mailbox, per-message loops over the backend, fork/_compare
               diff, FETCH merge);  step / run.
     Spec.v  : the plain reference model written from RFC 3501/4315/6851
               (mailbox = list of messages, positions, direct effects); spec_step /
               spec_run;  abs forgets the session's view.
     Told.v  : the reference for a session that is not alone (other connections change
               the mailbox between its commands, labels LExt of Model.v): sets are read in
               what the session has been told, effects are one step by UID;  t_step / t_run_l.
   [Inv] (SimBase.v): UIDs of every mailbox ascend, are positive and below the
   UID counter; the session's view is the selected mailbox's message list (what
   update_selected leaves after every command); for maildir all folders share one
   keyword table and stored flags have a file-name letter.  It holds initially
   (C10_init_dict / C10_init_maildir) and is preserved (part of the proof). *)
From PV Require Import Base.Prelude Wire.SeqSet Wire.SeqSetProofs
  RefModel.Flags RefModel.Model RefModel.Spec RefModel.BoxLemmas RefModel.AddrProofs
  RefModel.SimBase RefModel.SimStore RefModel.SimOther RefModel.SimNew RefModel.InitOk RefModel.Proofs
  RefModel.Told RefModel.ToldProofs RefModel.KwTables RefModel.KwTablesProofs.

(* C10: for EVERY program (any length) over SELECT/EXAMINE, APPEND and MULTIAPPEND
   (all-or-nothing when the backend fails on a message), STORE (FLAGS/+FLAGS/-FLAGS,
   .SILENT), EXPUNGE, UID EXPUNGE, COPY, MOVE, FETCH, CLOSE, NOOP, CHECK, STATUS, SEARCH
   (flag keys, NEW, sequence and UID sets, NOT, OR), CREATE, DELETE, RENAME (messages,
   UIDs, UIDVALIDITY and read-only bit travel with the mailbox; INBOX leaves an empty
   INBOX; a session whose selected mailbox loses its name is told BYE or, for its own
   RENAME INBOX, finds out with its next command) and the UID variants, with any
   sequence sets and any flags, the responses of the model equal those of the reference
   spec, and the final mailboxes (messages, flags, dates, contents, stored \Recent, UID
   counters, UIDVALIDITY) and session (selected mailbox, read-only bit, \Recent set) are
   the spec's.  [Good st]: [Inv] (below) or a selection that has lost its mailbox, and no
   mailbox is called GONE (a reserved id, [wf_cmd]: no command creates it). *)
Theorem C10_refines : forall prog st, Good st -> Forall wf_cmd prog ->
  snd (run st prog) = snd (spec_run (abs st) prog) /\
  abs (fst (run st prog)) = fst (spec_run (abs st) prog).
Proof. exact refines_main. Qed.
Print Assumptions C10_refines.

(* the states a connection starts from satisfy the invariant: nothing selected,
   well-formed mailboxes (decidable; evaluated on every correspondence case) *)
Theorem C10_init_dict : forall st, init_ok st = true -> Good st.
Proof. exact init_ok_Good. Qed.
Print Assumptions C10_init_dict.

Theorem C10_init_maildir : forall st, init_ok_maildir st = true -> Good st.
Proof. exact init_ok_maildir_Good. Qed.
Print Assumptions C10_init_maildir.

(* one step (the per-command simulation lemmas sim_select, sim_append, sim_store,
   sim_expunge (also UID EXPUNGE), sim_copy, sim_move, sim_fetch (implicit \Seen),
   sim_close, sim_noop, sim_check, sim_status, sim_search, sim_create, sim_delete,
   sim_rename, and sim_gone for a stale selection, collected): same response, same
   abstract state, invariant kept *)
Theorem C10_sim_step : forall st c, Good st -> wf_cmd c ->
  snd (step st c) = snd (spec_step (abs st) c) /\
  abs (fst (step st c)) = fst (spec_step (abs st) c) /\ InvW (fst (step st c)).
Proof. exact sim_stepW. Qed.
Print Assumptions C10_sim_step.

(* C10 with OTHER connections: for every LABELLED program — the session's commands with
   any number of changes by other connections in between (LExt: another connection
   changes flags / delivers a message / expunges) — the model equals the told-view
   reference of Told.v, responses and whole final state: sequence numbers, '*' and UID
   ranges denote positions / UIDs in what the session has been told so far (RFC
   denotation, [addressed]); each command acts on the mailbox in one step on the live
   messages with the addressed UIDs (one map / filter / append; vanished ones are skipped
   or answered from what was told, with [EXPUNGEISSUED]); then the session is told the
   difference.  Neither the per-message loops nor SequenceSet flattening occur in the
   reference.  [Wk st]: mailboxes well-formed (UIDs ascending, positive, below the UID
   counter), no mailbox called GONE, and what the session was told is an ascending list
   of positive UIDs not above the counter of its mailbox — no synchrony between the two
   is assumed.  The proof shows [Wk] is kept by every command and every LExt. *)
Theorem C10_refines_interleaved : forall prog st, Wk st -> Forall wf_label prog ->
  run_l st prog = t_run_l st prog.
Proof. exact told_refines_main. Qed.
Print Assumptions C10_refines_interleaved.

(* [Wk] holds for the states a connection starts from and for every state in sync *)
Theorem C10_interleaved_init : forall st,
  (init_ok st = true \/ init_ok_maildir st = true \/
   (Inv st /\ lookup GONE (st_boxes st) = None)) -> Wk st.
Proof. exact Wk_holds. Qed.
Print Assumptions C10_interleaved_init.

(* sequence sets, UID sets and '*': the spec addresses a message exactly when
   the set denotes its number in the sense of RFC 3501 (Wire/SeqSet.v [denotes]:
   ranges in either order, '*' = the largest number in use, numbers above it
   denote nothing, repetitions irrelevant) ... *)
Theorem C10_set_denotes : forall mx ss n, in_set mx ss n = true <-> denotes mx ss n.
Proof. exact in_set_denotes. Qed.
Print Assumptions C10_set_denotes.

(* ... and the model's get_uids/get_all (flatten over the session's view, then
   enumerate) picks exactly the messages the spec addresses, in order *)
Theorem C10_addressing : forall v uid ss, asc (uids_of v) ->
  get_all v uid ss = filter (fun qm => addressed uid ss v (fst qm) (snd qm)) (enumerate v).
Proof. exact get_all_spec. Qed.
Print Assumptions C10_addressing.

(* STORE replaces / adds / removes exactly the named permitted flags: the new
   flag set of an addressed message, flag by flag (dict backend) *)
Theorem C10_store_exact : forall b op fl m f,
  mem f (store_flags Dict b op fl m) =
  match op with
  | OpReplace => mem f fl && permitted (b_perm b) f
  | OpAdd => mem f (m_flags m) || (mem f fl && permitted (b_perm b) f)
  | OpDelete => mem f (m_flags m) && negb (mem f fl && permitted (b_perm b) f)
  end.
Proof. exact store_exact. Qed.
Print Assumptions C10_store_exact.

(* MOVE = COPY followed by removal of the originals *)
Theorem C10_move_is_copy_then_remove : forall st uid ss dest s b d,
  sp_sel st = Some s -> ss_ro s = false ->
  lookup (ss_box s) (sp_boxes st) = Some b -> lookup dest (sp_boxes st) = Some d -> b_ro d = false ->
  let after_copy := sp_boxes (fst (spec_copy st uid ss dest)) in
  sp_boxes (fst (spec_move st uid ss dest)) =
  match lookup (ss_box s) after_copy with
  | Some b1 => set_box (ss_box s)
                 (set_msgs b1 (filter (fun m => negb (memN (m_uid m)
                                 (uids_of (selected_msgs uid ss (b_msgs b))))) (b_msgs b1)))
                 after_copy
  | None => after_copy
  end.
Proof. exact move_is_copy_then_remove. Qed.
Print Assumptions C10_move_is_copy_then_remove.

(* which FETCH items set \Seen: pymap's FetchAttribute.set_seen is the RFC table *)
Theorem C10_set_seen : forall a, attr_set_seen a = rfc_sets_seen a.
Proof. exact set_seen_rfc. Qed.
Print Assumptions C10_set_seen.

(* in a single session STORE/FETCH never answer [EXPUNGEISSUED] *)
Theorem C10_no_expungeissued : forall prog st, Good st -> Forall wf_cmd prog ->
  Forall (fun o => o_code o <> CExpungeIssued) (snd (run st prog)).
Proof. exact no_expungeissued. Qed.
Print Assumptions C10_no_expungeissued.

(* finding C10-F3 (fixed in /repo 7d764ef): carrying the file-name keyword letters as
   they are between folders with different keyword tables can give the copy a flag the
   original did not have ... *)
Theorem C10_refuted_keyword_tables :
  exists src dst fl f, mem f (maildir_carry src dst fl) = true /\ mem f fl = false.
Proof. exact keyword_tables_refuted. Qed.
Print Assumptions C10_refuted_keyword_tables.

(* ... which cannot happen when source and destination share one table (the
   hypothesis maildir_ok of Inv): flags that have a letter are carried unchanged *)
Theorem C10_keyword_same_table : forall t fl,
  (forall f, mem f fl = true -> is_sys5 f = true \/ mem f t = true) ->
  maildir_carry t t fl = fl.
Proof. exact keyword_same_table. Qed.
Print Assumptions C10_keyword_same_table.

(* round 5 — the translation itself, at the level of file-name letters (KwTables.v: model of
   MaildirFlags.read / to_maildir / from_maildir for an arbitrary dovecot-keywords file and of
   MailboxData._dest_flags).  For EVERY source table, every well-formed destination table
   (one line per number) and every letter string, what arrives — read with the destination's
   table — is exactly the flags the letters meant in the source folder, as far as the
   destination can store them: the model's [storable Maildir (b_perm dest)]. *)
Theorem C10_keyword_translation_exact : forall src dst codes f,
  wf_table dst ->
  mem f (from_maildir dst (translate src dst codes))
  = mem f (storable Maildir (table_perm dst) (from_maildir src codes)).
Proof. exact translate_exact. Qed.
Print Assumptions C10_keyword_translation_exact.

(* ... while leaving the letters as they are is wrong even between two folders that define the
   same SET of keywords (each folder numbers them in its own order): seeded change C10-6 *)
Theorem C10_refuted_raw_letters_same_keyword_set :
  exists src dst codes, wf_table src /\ wf_table dst /\ same_keyword_set src dst /\
    fset_eqb (from_maildir dst codes) (from_maildir src codes) = false /\
    fset_eqb (from_maildir dst (translate src dst codes)) (from_maildir src codes) = true.
Proof. exact raw_letters_same_set_refuted. Qed.
Print Assumptions C10_refuted_raw_letters_same_keyword_set.
