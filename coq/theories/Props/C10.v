(* Props/C10.v — message commands behave as the IMAP reference model says. *)
From PV Require Import Base.Prelude Wire.SeqSet RefModel.Flags RefModel.Model RefModel.Spec RefModel.Proofs.

Theorem C10_set_seen : forall a, attr_set_seen a = rfc_sets_seen a.
Proof. exact set_seen_rfc. Qed.
Print Assumptions C10_set_seen.
