(* Props/C05.v — the connection state machine follows RFC 3501 section 3.
   Only statements, each closed by [exact] and followed by Print Assumptions.
   Model: Conn/ConnFSM.v ([conn_step] over an arbitrary backend function [bk]
   and the generated table Conn/CmdTable.v of all built-in commands);
   specification: Conn/ConnSpec.v (RFC state table, written independently). *)
From Coq Require Import String.
From PV Require Import Base.Prelude Conn.CmdEntry Conn.CmdTable Conn.ConnFSM Conn.ConnSpec
  Conn.ConnFSMProofs Conn.MultiConn Conn.MultiConnProofs.
Open Scope string_scope.

(* Acceptance depends only on the state reached.  For EVERY built-in command
   (every name of the generated table that Commands.parse can produce), every
   connection state, every backend, configuration and argument: the server
   answers with one of its three state refusals (always a tagged BAD) exactly
   when the RFC table does not allow the command in the current state.  The
   bound is the finite table: all built-in commands. *)
Theorem C05_gate :
  forall name e, lookup_entry name cmd_table = Some e -> ce_compound e = false ->
  exists al, rfc_allowed name = Some al /\
  forall (B : Type) (bk : B -> bcall -> answer * B) (cfg : config)
         (c : conn) (b : B) (a : args) (k : pkind),
    kind_of (c_phase c) = Some k ->
    let '(_, _, o) := conn_step B bk cmd_table cfg c b (CCmd name a) in
    state_refusal (o_why o) = negb (allowed_in al k) /\
    (state_refusal (o_why o) = true -> o_cond o = BAD).
Proof. exact gate_all_builtin. Qed.
Print Assumptions C05_gate.

(* ... and the table is complete: every command of the RFC table is a
   built-in command of pymap *)
Theorem C05_commands_complete :
  forall name al, In (name, al) rfc_table -> exists e, lookup_entry name cmd_table = Some e.
Proof. exact builtin_complete. Qed.
Print Assumptions C05_commands_complete.

(* A successful SELECT/EXAMINE selects exactly that mailbox (with the
   read-only flag the backend returned), whatever was selected before. *)
Theorem select_ok :
  forall (B : Type) (bk : B -> bcall -> answer * B) (cfg : config) (c : conn) (b : B)
         (name : string) (m u : bytes) (ro : bool) (b1 : B),
    name = "SELECT" \/ name = "EXAMINE" ->
    session_user (c_phase c) = Some u ->
    bk b (mk_bcall "select_mailbox" m [] [] (name =? "EXAMINE")) = (AnsOk ro false, b1) ->
    let '(c', b', o) := conn_step B bk cmd_table cfg c b (CCmd name (AMailbox m)) in
    o_cond o = OK /\ b' = b1 /\ c_phase c' = Selected u m ro /\ c_bad c' = 0%N.
Proof. exact select_ok_tbl. Qed.
Print Assumptions select_ok.

(* A failed one — whatever the failure: no such mailbox, a name the backend
   refuses, a time-out, any other ResponseError — answers NO and leaves no
   mailbox selected, also when one was selected before. *)
Theorem select_fail :
  forall (B : Type) (bk : B -> bcall -> answer * B) (cfg : config) (c : conn) (b : B)
         (name : string) (m u : bytes) (x : answer) (b1 : B),
    name = "SELECT" \/ name = "EXAMINE" ->
    session_user (c_phase c) = Some u ->
    bk b (mk_bcall "select_mailbox" m [] [] (name =? "EXAMINE")) = (x, b1) ->
    failure_answer x = true ->
    let '(c', b', o) := conn_step B bk cmd_table cfg c b (CCmd name (AMailbox m)) in
    o_cond o = NO /\ b' = b1 /\ c_phase c' = Authd u.
Proof. exact select_fail_tbl. Qed.
Print Assumptions select_fail.

(* CLOSE always deselects; on a read-only selection it succeeds without
   touching the backend; on a read-write one it succeeds whenever the
   backend's expunge returns, and also when the mailbox is gone (deleted or
   renamed by another session). *)
Theorem close_deselects :
  forall (B : Type) (bk : B -> bcall -> answer * B) (cfg : config) (c : conn) (b : B) u m ro,
    c_phase c = Selected u m ro ->
    let '(c', b', o) := conn_step B bk cmd_table cfg c b (CCmd "CLOSE" ANone) in
    has_selected (c_phase c') = false /\
    (ro = true -> o_cond o = OK /\ b' = b /\ c_phase c' = Authd u) /\
    (ro = false -> forall x b1, bk b (call "expunge_mailbox" [] []) = (x, b1) ->
                   (exists r g, x = AnsOk r g) \/ x = AnsNotFound ->
                   o_cond o = OK /\ b' = b1 /\ c_phase c' = Authd u).
Proof. exact close_deselects_tbl. Qed.
Print Assumptions close_deselects.

(* LOGOUT in any state: untagged BYE and tagged OK, the connection is
   closed, the backend is not touched. *)
Theorem logout_bye_ok :
  forall (B : Type) (bk : B -> bcall -> answer * B) (cfg : config) (c : conn) (b : B),
    c_phase c <> Closed ->
    conn_step B bk cmd_table cfg c b (CCmd "LOGOUT" ANone) =
    (mk_conn (set_phase (c_view c) Closed) (c_bad c), b, mk_out OK WLogout true 0).
Proof. exact logout_tbl. Qed.
Print Assumptions logout_bye_ok.

(* A refused command (wrong state, or not a well-formed built-in command) has
   no effect: for ANY command table, backend and state, the backend state is
   unchanged and the connection changes only in its bad-command counter
   (which closes the connection, with a BYE, when it reaches the limit). *)
Theorem refused_no_effect :
  forall (B : Type) (bk : B -> bcall -> answer * B) (tbl : list cmd_entry) (cfg : config)
         (c : conn) (b : B) (k : cmd),
    c_phase c <> Closed ->
    let '(c', b', o) := conn_step B bk tbl cfg c b k in
    refusal_why (o_why o) = true ->
    b' = b /\ c' = after_refusal cfg c /\ o_cond o = BAD /\
    o_bye o = limit_reached cfg (c_bad c + 1).
Proof. exact refused_step. Qed.
Print Assumptions refused_no_effect.

(* ... lifted to programs of any length: with no bad-command limit, erasing a
   refused command from anywhere in a program leaves the backend, the final
   connection state and the answer to every other command the same. *)
Theorem refused_erasure :
  forall (B : Type) (bk : B -> bcall -> answer * B) (tbl : list cmd_entry) (cfg : config)
         (p1 : list cmd) (k : cmd) (p2 : list cmd) (c : conn) (b : B),
    cf_bad_limit cfg = 0%N ->
    let '(c1, b1, o1) := run_from B bk tbl cfg c b p1 in
    c_phase c1 <> Closed ->
    refusal_why (o_why (snd (conn_step B bk tbl cfg c1 b1 k))) = true ->
    let '(ca, ba, oa) := run_from B bk tbl cfg c b (p1 ++ k :: p2)%list in
    let '(cb, bb, ob) := run_from B bk tbl cfg c b (p1 ++ p2)%list in
    c_view ca = c_view cb /\ ba = bb /\
    oa = (o1 ++ snd (conn_step B bk tbl cfg c1 b1 k) :: skipn (length o1) ob)%list.
Proof. exact erasure. Qed.
Print Assumptions refused_erasure.

(* The tie is in the table: with the row the code produced before AUTHENTICATE
   was routed through the gate, the gate statement is false (a second
   AUTHENTICATE replaces the identity of an authenticated connection). *)
Theorem C05_gate_needs_gated_rows :
  row_ok ungated_authenticate = false /\
  exists (s : script) (c : conn) (k : cmd),
    c_phase c = Authd [117]%N /\
    let '(c', _, o) := conn_step script script_bk [ungated_authenticate]
                                 (mk_config false true 5 true true None) c s k in
    o_cond o = OK /\ c_phase c' = Authd [118]%N.
Proof. exact (conj ungated_row_not_ok ungated_authenticate_runs). Qed.
Print Assumptions C05_gate_needs_gated_rows.

(* ---- several connections on one server object (Conn/MultiConn.v) ----
   "The connection state reached so far" is the state of THIS connection.  In
   the world model (one slot per connection; shared: the backend and the
   immutable configuration) the slot of connection i after ANY interleaving
   with the events of other connections — they may complete STARTTLS, log in,
   collect BADs, be closed — and every answer written to i are those of the
   single-connection model [conn_step] run alone over i's own commands, each
   against the backend state it met.  For every backend, table, configuration
   and event list (induction over the events). *)
Theorem C05_conn_independent :
  forall (B : Type) (bk : B -> bcall -> answer * B) (tbl : list cmd_entry) (scfg : config)
         (evs : list event) (w : world) (b : B) (i : nat) (loc : bool) (c0 : conn),
    wlookup i w = Some (loc, c0) ->
    forallb (fun e => negb (opens i e)) evs = true ->
    let '(w', _, os) := world_run B bk tbl scfg w b evs in
    let '(c', outs) := replay B bk tbl (conn_cfg scfg loc) c0
                              (trace_of B bk tbl scfg i w b evs) in
    wlookup i w' = Some (loc, c') /\ outs_of i os = outs.
Proof. exact world_conn_independent. Qed.
Print Assumptions C05_conn_independent.

(* an event of one connection leaves the slot of every other one untouched *)
Theorem C05_world_frame :
  forall (B : Type) (bk : B -> bcall -> answer * B) (tbl : list cmd_entry) (scfg : config)
         (w : world) (b : B) (e : event) (j : nat),
    j <> ev_id e -> wlookup j (fst (fst (world_step B bk tbl scfg w b e))) = wlookup j w.
Proof. exact world_frame. Qed.
Print Assumptions C05_world_frame.

(* Whatever the server has been through, a client connecting now is in the
   pristine not-authenticated state ... *)
Theorem C05_fresh_after_any_history :
  forall (B : Type) (bk : B -> bcall -> answer * B) (tbl : list cmd_entry) (scfg : config),
    cf_preauth scfg = None ->
    forall (evs : list event) (w : world) (b : B) (i : nat) (loc : bool),
      let '(w1, b1, _) := world_run B bk tbl scfg w b evs in
      let '(w2, b2, o) := world_step B bk tbl scfg w1 b1 (EOpen i loc) in
      wlookup i w2 = Some (loc, fresh_conn scfg loc) /\ b2 = b1 /\
      o = Some (mk_out OK WDone false 0).
Proof. exact fresh_after_any_history. Qed.
Print Assumptions C05_fresh_after_any_history.

(* ... in which STARTTLS is accepted exactly when the configuration enables
   TLS (and then stops being offered on this connection only), *)
Theorem C05_fresh_starttls :
  forall (B : Type) (bk : B -> bcall -> answer * B) (scfg : config) (loc : bool) (b : B),
    let '(c', b', o) := conn_step B bk cmd_table (conn_cfg scfg loc) (fresh_conn scfg loc) b
                                  (CCmd "STARTTLS" ANone) in
    b' = b /\
    (cf_tls scfg = true ->
       o_cond o = OK /\ c_starttls c' = false /\ c_mechs c' = true /\ c_phase c' = NotAuth) /\
    (cf_tls scfg = false -> o_cond o = NO /\ o_why o = WCannot /\ c' = fresh_conn scfg loc).
Proof. exact fresh_starttls. Qed.
Print Assumptions C05_fresh_starttls.

(* ... and LOGIN from a non-local peer is refused as LOGINDISABLED exactly
   until this connection's own STARTTLS. *)
Theorem C05_fresh_login_disabled :
  forall (B : Type) (bk : B -> bcall -> answer * B) (scfg : config) (b : B) (u p : bytes),
    cf_tls scfg = true ->
    let '(c', b', o) := conn_step B bk cmd_table (conn_cfg scfg false) (fresh_conn scfg false) b
                                  (CCmd "LOGIN" (ALogin u p)) in
    o_cond o = NO /\ o_why o = WCannot /\ b' = b /\ c' = fresh_conn scfg false.
Proof. exact fresh_login_disabled. Qed.
Print Assumptions C05_fresh_login_disabled.

(* Non-vacuity: the design in which the initial capability list is one object
   aliased by the server and all its connections (in-place remove in
   do_starttls) is a different machine: same events, connection 1's STARTTLS
   is answered NO there and OK in the product model. *)
Theorem C05_aliased_capabilities_refuted :
  map (fun x => (fst x, o_cond (snd x)))
      (snd (world_run script script_bk cmd_table tls_cfg [] [] starttls_twice))
    = [(0, OK); (0, OK); (1, OK); (1, OK)]%nat /\
  map (fun x => (fst x, o_cond (snd x)))
      (snd (aliased_run script script_bk cmd_table tls_cfg ([], true) [] starttls_twice))
    = [(0, OK); (0, OK); (1, OK); (1, NO)]%nat.
Proof. exact aliased_design_refuted. Qed.
Print Assumptions C05_aliased_capabilities_refuted.

(* The hypotheses are satisfiable: a concrete session against a scripted
   backend — LOGIN, EXAMINE INBOX, CLOSE (read-only: OK, no backend call),
   FETCH (refused: nothing selected any more), LOGOUT. *)
Example C05_example_session :
  let cfg := mk_config false true 5 true true None in
  let u := [117]%N in
  let s : script :=
    [("authenticate", AnsIdent u []); ("authorize", AnsIdent u []);
     ("new_session", AnsOk false false); ("select_mailbox", AnsOk true false)] in
  let p := [CCmd "LOGIN" (ALogin u [112]%N); CCmd "EXAMINE" (AMailbox b_INBOX);
            CCmd "CLOSE" ANone; CCmd "FETCH" ANone; CCmd "LOGOUT" ANone] in
  let '(c, rest, outs) := run script script_bk cmd_table cfg s p in
  c_phase c = Closed /\ rest = [] /\
  map o_cond outs = [OK; OK; OK; OK; BAD; OK] /\
  map o_why outs = [WDone; WDone; WDone; WDone; WMustSelect; WLogout].
Proof. vm_compute. auto. Qed.
