(* Props/C09.v — authentication and authorisation are sound.
   Only statements, each closed by [exact] and followed by Print Assumptions.
   Model: Conn/ConnFSM.v (the IMAP connection layer, with the generated
   command table) composed with Conn/Auth.v [login_bk] (Login.authenticate /
   authorize / Identity.new_session of the dict and maildir backends), and
   Conn/SieveAuth.v (the ManageSieve listener's own path).  The secret check
   (pysasl + saslprep + the configured hash) is the oracle [verify_secret],
   [prep_ok]: Section-style universally quantified function arguments. *)
From Coq Require Import String.
From PV Require Import Base.Prelude Conn.CmdEntry Conn.CmdTable Conn.ConnFSM Conn.Auth
  Conn.AuthProofs Conn.SieveAuth Conn.SieveAuthProofs Conn.AuthDb Conn.AuthDbProofs.
Open Scope string_scope.

(* IMAP, no preauth.  For every oracle, backend kind, user database,
   configuration and EVERY program of commands (not only login attempts, any
   length): if the connection ends authenticated as u, then some command i
   presented credentials (authc, secret, authz = u) such that authc is an
   existing user whose stored secret verifies the presented one, u = authc or
   authc holds the role that Login.authorize demands, u exists; the connection
   was not authenticated before command i and has been u after every command
   since (no later step changed the identity). *)
Theorem C09_sound :
  forall (verify_secret : bytes -> bytes -> bool) (prep_ok : bytes -> bool)
         (kind : backend_kind) (db : userdb) (cfg : config) (p : list cmd) (u : bytes),
    let bk := login_bk verify_secret prep_ok kind db in
    let c0 := fst (fst (conn_init unit bk cfg tt)) in
    let states := states_from unit bk cmd_table cfg c0 tt p in
    cf_preauth cfg = None ->
    session_user (c_phase (last states c0)) = Some u ->
    exists i k authc secret,
      nth_error p i = Some k /\ creds_of k = Some (authc, secret, u) /\
      valid_creds verify_secret prep_ok kind db authc secret u /\
      (forall j cj, (j < i)%nat -> nth_error states j = Some cj ->
                    session_user (c_phase cj) = None) /\
      (forall j cj, (i <= j)%nat -> nth_error states j = Some cj ->
                    session_user (c_phase cj) = Some u).
Proof. exact imap_sound. Qed.
Print Assumptions C09_sound.

(* IMAP with preauth_credentials: authenticated at the end only as the
   configured authorization id, only if those credentials are valid, and as
   nobody else in between. *)
Theorem C09_preauth_sound :
  forall (verify_secret : bytes -> bytes -> bool) (prep_ok : bytes -> bool)
         (kind : backend_kind) (db : userdb) (cfg : config) (p : list cmd)
         (u authc secret authz : bytes),
    let bk := login_bk verify_secret prep_ok kind db in
    let c0 := fst (fst (conn_init unit bk cfg tt)) in
    let states := states_from unit bk cmd_table cfg c0 tt p in
    cf_preauth cfg = Some (authc, secret, authz) ->
    session_user (c_phase (last states c0)) = Some u ->
    u = authz /\ valid_creds verify_secret prep_ok kind db authc secret authz /\
    forall cj, In cj states -> session_user (c_phase cj) = Some u.
Proof. exact imap_preauth_sound. Qed.
Print Assumptions C09_preauth_sound.

(* Any failed, cancelled or malformed attempt leaves an unauthenticated
   connection unauthenticated: whatever the command, if the credentials it
   presents (none for '*', bad base64, an invalid or undecodable response, a
   mechanism that is not offered, a non-login command) are not valid —
   wrong secret, unknown user, disabled password, authzid the user may not
   assume, authzid that does not exist — the connection stays unauthenticated. *)
Theorem failed_leaves_unauth :
  forall (verify_secret : bytes -> bytes -> bool) (prep_ok : bytes -> bool)
         (kind : backend_kind) (db : userdb) (cfg : config) (c : conn) (k : cmd),
    session_user (c_phase c) = None ->
    (forall authc secret authz, creds_of k = Some (authc, secret, authz) ->
                                ~ valid_creds verify_secret prep_ok kind db authc secret authz) ->
    session_user (c_phase (fst (fst (conn_step unit (login_bk verify_secret prep_ok kind db)
                                               cmd_table cfg c tt k)))) = None.
Proof. exact imap_failed_leaves_unauth. Qed.
Print Assumptions failed_leaves_unauth.

(* LOGIN while LOGINDISABLED is advertised (no mechanism offered to an
   unauthenticated connection): NO [CANNOT], no backend call, nothing changes
   — for every backend. *)
Theorem login_disabled :
  forall (B : Type) (bk : B -> bcall -> answer * B) (cfg : config) (c : conn) (b : B) (u p : bytes),
    c_phase c = NotAuth -> c_mechs c = false ->
    conn_step B bk cmd_table cfg c b (CCmd "LOGIN" (ALogin u p)) =
    (c, b, mk_out NO WCannot false 0).
Proof. exact login_disabled_step. Qed.
Print Assumptions login_disabled.

(* ... which is the state a remote peer of a TLS-enabled listener is in ... *)
Theorem logindisabled_for_remote_without_tls :
  forall (B : Type) (bk : B -> bcall -> answer * B) (cfg : config) (b : B),
    cf_preauth cfg = None -> cf_tls cfg = true -> cf_local cfg = false ->
    let c := fst (fst (conn_init B bk cfg b)) in
    c_phase c = NotAuth /\ c_mechs c = false /\ cap_logindisabled (c_view c) = true.
Proof. exact logindisabled_remote. Qed.
Print Assumptions logindisabled_for_remote_without_tls.

(* ... and stays in, whatever it sends, until it issues STARTTLS: no program
   without a STARTTLS command authenticates such a connection. *)
Theorem no_tls_no_auth :
  forall (verify_secret : bytes -> bytes -> bool) (prep_ok : bytes -> bool)
         (kind : backend_kind) (db : userdb) (cfg : config) (p : list cmd),
    let bk := login_bk verify_secret prep_ok kind db in
    let c0 := fst (fst (conn_init unit bk cfg tt)) in
    cf_preauth cfg = None -> cf_tls cfg = true -> cf_local cfg = false ->
    Forall not_starttls p ->
    forall cj, In cj (states_from unit bk cmd_table cfg c0 tt p) ->
               session_user (c_phase cj) = None.
Proof. exact imap_no_tls_no_auth. Qed.
Print Assumptions no_tls_no_auth.

(* ManageSieve.  For every program of ManageSieve commands: if the connection
   ends owned by u then either it has been u's since the start, or some
   AUTHENTICATE i presented credentials whose authentication id is u and that
   verify for the existing user u, and the connection has been u's after
   every command since.  (This listener never consults the authorization id:
   the connection always acts as the authenticated user.) *)
Theorem C09_sieve_sound :
  forall (verify_secret : bytes -> bytes -> bool) (prep_ok : bytes -> bool)
         (kind : backend_kind) (db : userdb) (p : list scmd) (c : sconn) (u : bytes),
    let bk := login_bk verify_secret prep_ok kind db in
    let states := sieve_states unit bk c tt p in
    sv_owner (last states c) = Some u ->
    (sv_owner c = Some u /\ forall cj, In cj states -> sv_owner cj = Some u) \/
    exists i k secret,
      nth_error p i = Some k /\ sieve_creds_of k = Some (u, secret) /\
      valid_login verify_secret prep_ok db u secret /\
      forall j cj, (i <= j)%nat -> nth_error states j = Some cj -> sv_owner cj = Some u.
Proof. exact sieve_sound_from. Qed.
Print Assumptions C09_sieve_sound.

(* the ManageSieve greeting leaves the connection owned by somebody only when
   the configured preauth credentials verify, and then by their user *)
Theorem C09_sieve_greeting :
  forall (verify_secret : bytes -> bytes -> bool) (prep_ok : bytes -> bool)
         (kind : backend_kind) (db : userdb) (cfg : config) (u : bytes),
    sv_owner (fst (fst (sieve_init_conn unit (login_bk verify_secret prep_ok kind db) cfg tt)))
    = Some u ->
    exists authc secret authz, cf_preauth cfg = Some (authc, secret, authz) /\
                               u = authc /\ valid_login verify_secret prep_ok db authc secret.
Proof. exact sieve_init_owner. Qed.
Print Assumptions C09_sieve_greeting.

Theorem sieve_failed_leaves_unauth :
  forall (verify_secret : bytes -> bytes -> bool) (prep_ok : bytes -> bool)
         (kind : backend_kind) (db : userdb) (c : sconn) (k : scmd),
    sv_owner c = None ->
    (forall authc secret, sieve_creds_of k = Some (authc, secret) ->
                          ~ valid_login verify_secret prep_ok db authc secret) ->
    sv_owner (fst (fst (sieve_step unit (login_bk verify_secret prep_ok kind db) c tt k))) = None.
Proof. exact sieve_failed_step. Qed.
Print Assumptions sieve_failed_leaves_unauth.

(* The hypotheses are satisfiable and the conclusion is not vacuous: an admin
   authenticates and acts as another user; the same exchange by a user
   without the role is refused. *)
Example C09_example_admin :
  let db := [mk_user [114] (Some [1]) [r_admin]; mk_user [98] (Some [2]) []]%N in
  let verify := fun h s => bytes_eqb h s in
  let bk := login_bk verify (fun _ => true) BDict db in
  let cfg := mk_config false true 5 true true None in
  let c0 := fst (fst (conn_init unit bk cfg tt)) in
  let plain d := CCmd "AUTHENTICATE" (AAuth b_PLAIN [mk_cline [65]%N (Some d) true]) in
  session_user (c_phase (fst (fst (conn_step unit bk cmd_table cfg c0 tt
                                      (plain [98;0;114;0;1]%N))))) = Some [98]%N /\
  session_user (c_phase (fst (fst (conn_step unit bk cmd_table cfg c0 tt
                                      (plain [114;0;98;0;2]%N))))) = None.
Proof. vm_compute. split; reflexivity. Qed.

(* ================================================================== *)
(* The identity database as STATE (Conn/AuthDb.v): Identity.set / delete of
   the dict backend (Login.users_dict) and of the maildir backend (the three
   files passwd / shadow / group) interleaved with the commands of a
   connection; every attempt is decided against [view_db] of the database of
   that moment, with strict decoding of the credential octets
   ([strict_verify], [strict_prep]: octets that are not UTF-8 never verify). *)

(* Identity.set(name, pw) then Identity.get(name): the stored secret is the
   one just set — none when the password was removed (maildir: also when the
   field reads as disabled) — for both backends, whatever was stored before. *)
Theorem C09_set_then_get :
  forall (s : dbstate) (priv : bool) (n : bytes) (pw : option bytes) (roles : list bytes)
         (s' : dbstate),
    db_apply s (OSet priv n pw roles) = (s', ROk) ->
    pw_of s' n = Some (effective_pw s pw).
Proof. exact pw_after_set. Qed.
Print Assumptions C09_set_then_get.

(* an operation on one user never changes whether another exists or what its
   stored secret is *)
Theorem C09_set_leaves_others :
  forall (s : dbstate) (o : dbop) (n : bytes),
    op_name o <> n -> pw_of (fst (db_apply s o)) n = pw_of s n.
Proof. exact pw_other. Qed.
Print Assumptions C09_set_leaves_others.

(* Over EVERY history of database operations and commands: a connection that
   ends authenticated as u was authenticated by a command i whose credentials
   (authc, secret, u) were valid for the database as it was when command i
   ran (si = the database before step i). *)
Theorem C09_history_sound :
  forall (verify_secret : bytes -> bytes -> bool) (prep_ok : bytes -> bool) (cfg : config)
         (p : list hstep) (c : conn) (s : dbstate) (u : bytes),
    session_user (c_phase c) = None ->
    session_user (c_phase (fst (hist_final verify_secret prep_ok cmd_table cfg (c, s) p))) = Some u ->
    exists i k authc secret ci si,
      nth_error p i = Some (HCmd k) /\
      nth_error (hist_before verify_secret prep_ok cmd_table cfg (c, s) p) i = Some (ci, si) /\
      creds_of k = Some (authc, secret, u) /\
      valid_at verify_secret prep_ok si authc secret u.
Proof. exact hist_sound. Qed.
Print Assumptions C09_history_sound.

(* A removed password never authenticates: once Identity.set(n, password=None)
   succeeded, n has no stored secret ... *)
Theorem C09_password_removed :
  forall (s : dbstate) (priv : bool) (n : bytes) (roles : list bytes) (s' : dbstate),
    db_apply s (OSet priv n None roles) = (s', ROk) -> no_pw s' n.
Proof. exact removed_no_pw. Qed.
Print Assumptions C09_password_removed.

(* ... and through any later history in which nobody sets a password for n,
   whoever the connection becomes did not get there with n's credentials. *)
Theorem C09_removed_password_never_authenticates :
  forall (verify_secret : bytes -> bytes -> bool) (prep_ok : bytes -> bool) (cfg : config)
         (p : list hstep) (c : conn) (s : dbstate) (n u : bytes),
    no_pw s n ->
    (forall o, In (HOp o) p -> gives_pw n o = false) ->
    session_user (c_phase c) = None ->
    session_user (c_phase (fst (hist_final verify_secret prep_ok cmd_table cfg (c, s) p))) = Some u ->
    exists i k authc secret,
      nth_error p i = Some (HCmd k) /\ creds_of k = Some (authc, secret, u) /\ authc <> n.
Proof. exact removed_never_authenticates. Qed.
Print Assumptions C09_removed_password_never_authenticates.

(* A deleted user: Identity.delete(n) (whatever it answers) leaves no user n;
   until somebody creates n again nobody authenticates with n's credentials
   and nobody acts as n. *)
Theorem C09_deleted_user_never_authenticates :
  forall (verify_secret : bytes -> bytes -> bool) (prep_ok : bytes -> bool) (cfg : config)
         (p : list hstep) (c : conn) (s0 s : dbstate) (r : opres) (n u : bytes),
    db_apply s0 (ODelete n) = (s, r) ->
    (forall o, In (HOp o) p -> creates n o = false) ->
    session_user (c_phase c) = None ->
    session_user (c_phase (fst (hist_final verify_secret prep_ok cmd_table cfg (c, s) p))) = Some u ->
    u <> n /\
    exists i k authc secret,
      nth_error p i = Some (HCmd k) /\ creds_of k = Some (authc, secret, u) /\ authc <> n.
Proof. exact deleted_then_never. Qed.
Print Assumptions C09_deleted_user_never_authenticates.

(* LOGIN whose user id or password octets are not valid UTF-8 never
   authenticates (no lossy decoding), whatever the database holds; same for
   ManageSieve AUTHENTICATE and for a user without a stored secret. *)
Theorem C09_login_not_utf8 :
  forall (verify_secret : bytes -> bytes -> bool) (prep_ok : bytes -> bool) (cfg : config)
         (s : dbstate) (c : conn) (u p : bytes),
    session_user (c_phase c) = None ->
    utf8_valid u = false \/ utf8_valid p = false ->
    session_user (c_phase (fst (fst (conn_step unit (bk_at verify_secret prep_ok s) cmd_table cfg c tt
                                               (CCmd "LOGIN" (ALogin u p)))))) = None.
Proof. exact login_not_utf8. Qed.
Print Assumptions C09_login_not_utf8.

Theorem C09_sieve_no_secret_or_not_utf8 :
  forall (verify_secret : bytes -> bytes -> bool) (prep_ok : bytes -> bool)
         (s : dbstate) (c : sconn) (k : scmd) (n secret : bytes),
    sv_owner c = None -> sieve_creds_of k = Some (n, secret) ->
    no_pw s n \/ utf8_valid n = false \/ utf8_valid secret = false ->
    sv_owner (fst (fst (sieve_step unit (bk_at verify_secret prep_ok s) c tt k))) = None.
Proof. exact sieve_no_pw_step. Qed.
Print Assumptions C09_sieve_no_secret_or_not_utf8.

(* Non-vacuity (maildir, the three files): bob logs in with his password;
   after Identity.set(bob, password=None) the shadow field reads '*' and the
   same LOGIN is refused; "b\xffob"-style octets never log in. *)
Example C09_example_removed :
  let b := [98]%N in let h := [104]%N in
  let f := mk_md [(b, false)] [(b, h)] [] in
  let verify := fun h s => bytes_eqb h s in
  let cfg := mk_config false true 5 true true None in
  let login s u p :=
    let bk := bk_at verify (fun _ => true) s in
    let c0 := fst (fst (conn_init unit bk cfg tt)) in
    session_user (c_phase (fst (fst (conn_step unit bk cmd_table cfg c0 tt
                                        (CCmd "LOGIN" (ALogin u p)))))) in
  let s0 := MdDb f in
  let s1 := fst (db_apply s0 (OSet true b None [])) in
  login s0 b h = Some b /\ login s1 b h = None /\
  login s0 b [104; 255]%N = None /\ login s0 [98; 255]%N h = None /\
  pw_of s1 b = Some None.
Proof. vm_compute. repeat split; reflexivity. Qed.
