(* Props/C11.v — mailbox namespace commands behave as the reference model says.
   Only statements, each closed by [exact] and followed by Print Assumptions. *)
From PV Require Import Base.Prelude Namespace.Glob Namespace.GlobProofs.

(* the regular expression ListTree._get_pattern builds denotes exactly the
   RFC 3501 wildcard matcher, for every pattern and every name *)
Theorem glob_correct : forall pat name, model_match pat name = rfc_match pat name.
Proof. exact glob_correct_cs. Qed.
Print Assumptions glob_correct.
