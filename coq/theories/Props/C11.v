(* Props/C11.v — mailbox namespace commands behave as the reference model says.
   Only statements, each closed by [exact] and followed by Print Assumptions.

   [model_match] is what the regular expression of ListTree._get_pattern
   denotes, [rfc_match] the RFC 3501 6.3.8 matcher, [glob_denotes] its
   declarative reading; [tupdate]/[tmatching] model ListTree; [dstep] is the
   dict backend behind pymap/imap/state.py, [mstep] the maildir backend;
   [in_closure names p] : p is one of the names cut at a hierarchy delimiter. *)
From PV Require Import Base.Prelude Namespace.Glob Namespace.GlobProofs Namespace.NsBase
     Namespace.NsBaseProofs Namespace.ListTree Namespace.ListTreeProofs Namespace.NsModel
     Namespace.NsProofs Namespace.MdModel Namespace.MdProofs Namespace.PathsProofs Namespace.MdInv.

(* ---- (a) pattern matching *)
Theorem glob_correct : forall pat name, model_match pat name = rfc_match pat name.
Proof. exact glob_correct_cs. Qed.
Print Assumptions glob_correct.

(* the entry INBOX: both sides fold ASCII case *)
Theorem glob_inbox_correct : forall pat name, model_match_ci pat name = rfc_match_ci pat name.
Proof. exact glob_correct_ci. Qed.
Print Assumptions glob_inbox_correct.

(* the boolean RFC matcher is the declarative one: the name is cut into one
   piece per pattern character, "*" any piece, "%" a piece without delimiter *)
Theorem rfc_match_spec : forall pat s, rfc_match pat s = true <-> glob_denotes pat s.
Proof. exact rfc_match_denotes. Qed.
Print Assumptions rfc_match_spec.

(* the pattern of the code before the fix (no DOTALL, '$') *)
Theorem glob_legacy_refuted : exists pat name, legacy_match pat name <> rfc_match pat name.
Proof. exact legacy_newline_refuted. Qed.
Print Assumptions glob_legacy_refuted.

(* ---- (b) LIST: exactly the existing names (and their superiors, marked
   \Noselect) that match, each once, with the right attributes *)
Theorem list_exact : forall names q,
  let l := tmatching (tupdate names) q in
  (forall e, In e l ->
     in_closure names (e_name e) /\ entry_matches q (e_name e) = true
     /\ (e_exists e = true <-> In (e_name e) names)
     /\ (e_children e = true <-> exists m, in_closure names m /\ inferior (e_name e) m))
  /\ (forall p, in_closure names p -> entry_matches q p = true -> exists e, In e l /\ e_name e = p)
  /\ NoDup (map e_name l).
Proof. exact list_exact_names. Qed.
Print Assumptions list_exact.

(* the LIST / LSUB commands of both backends are that function of the
   existing / subscribed names, and change nothing *)
Theorem list_cmd_dict : forall uid0 st ref pat, pat <> [] ->
  let out := snd (dstep uid0 st (OList ref pat)) in
  fst (dstep uid0 st (OList ref pat)) = st /\ o_cond out = COk
  /\ o_list out = map (fun e => (e_name e, attrs e)) (tmatching (tupdate (dnames st)) (norm ref ++ pat)).
Proof. exact d_list_exact. Qed.
Print Assumptions list_cmd_dict.

Theorem lsub_exact : forall uid0 st ref pat, pat <> [] ->
  let out := snd (dstep uid0 st (OLsub ref pat)) in
  fst (dstep uid0 st (OLsub ref pat)) = st /\ o_cond out = COk
  /\ o_list out = map (fun e => (e_name e, attrs e))
                      (tmatching (tupdate (INBOX :: subscribed st)) (norm ref ++ pat)).
Proof. exact d_lsub_exact. Qed.
Print Assumptions lsub_exact.

(* ... whose name set is the closure of the subscribed names when INBOX is
   subscribed; in general INBOX is listed too (open finding C11-F1) *)
Theorem lsub_names_when_inbox_subscribed : forall names n p,
  In n names -> (in_closure (n :: names) p <-> in_closure names p).
Proof. exact closure_cons_mem. Qed.
Print Assumptions lsub_names_when_inbox_subscribed.

Theorem lsub_inbox_refuted :
  exists st ref pat, dinv st /\ subscribed st = [] /\
    o_list (snd (dstep 101 st (OLsub ref pat))) = [(INBOX, [3%N])].
Proof. exact NsProofs.lsub_inbox_refuted. Qed.
Print Assumptions lsub_inbox_refuted.

Theorem subscribed_is_lookup : forall st n, NoDup (map fst (d_subs st)) ->
  (In n (subscribed st) <-> alookup n (d_subs st) = Some true).
Proof. exact subscribed_spec. Qed.
Print Assumptions subscribed_is_lookup.

Theorem subscribe_spec : forall uid0 st n0 (flag : bool),
  (flag = true -> inbox_case_bad (norm n0) = false) ->
  let o := if flag then OSubscribe n0 else OUnsubscribe n0 in
  let st' := fst (dstep uid0 st o) in
  o_cond (snd (dstep uid0 st o)) = COk
  /\ alookup (norm n0) (d_subs st') = Some flag
  /\ (forall m, m <> norm n0 -> alookup m (d_subs st') = alookup m (d_subs st))
  /\ d_set st' = d_set st /\ d_inbox st' = d_inbox st.
Proof. exact d_subscribe_spec. Qed.
Print Assumptions subscribe_spec.

Theorem list_cmd_maildir : forall uid0 lay st ref pat, pat <> [] ->
  let out := snd (mstep uid0 lay st (OList ref pat)) in
  fst (mstep uid0 lay st (OList ref pat)) = st /\ o_cond out = COk
  /\ o_list out = map (fun e => (e_name e, attrs e))
                      (tmatching (tupdate (INBOX :: folder_names st)) (norm ref ++ pat)).
Proof. exact m_list_exact. Qed.
Print Assumptions list_cmd_maildir.

Theorem lsub_cmd_maildir : forall uid0 lay st ref pat, pat <> [] ->
  let out := snd (mstep uid0 lay st (OLsub ref pat)) in
  fst (mstep uid0 lay st (OLsub ref pat)) = st /\ o_cond out = COk
  /\ o_list out = map (fun e => (e_name e, attrs e))
                      (tmatching (tupdate (INBOX :: x_subs st)) (norm ref ++ pat)).
Proof. exact m_lsub_exact. Qed.
Print Assumptions lsub_cmd_maildir.

(* ---- RENAME *)
(* dict: the mailbox and every inferior move to the new name with their
   contents (identity, messages, UIDNEXT); names outside stay; the old names
   are gone.  [sfx rest] is '/p1/p2...' *)
Theorem rename_moves_subtree : forall uid0 st a0 b0,
  dinv st -> norm a0 <> INBOX ->
  o_cond (snd (dstep uid0 st (ORename a0 b0))) = COk ->
  let a := norm a0 in let b := norm b0 in
  let st' := fst (dstep uid0 st (ORename a0 b0)) in
  (forall rest, Forall nodelim rest ->
                alookup (b ++ sfx rest) (d_set st') = alookup (a ++ sfx rest) (d_set st))
  /\ (forall m, ~ bprefix a m -> ~ bprefix b m -> alookup m (d_set st') = alookup m (d_set st))
  /\ (forall m, bprefix a m -> ~ bprefix b m -> alookup m (d_set st') = None)
  /\ d_inbox st' = d_inbox st /\ d_subs st' = d_subs st
  /\ in_closure (dnames st) a /\ ~ in_closure (dnames st) b /\ b <> INBOX.
Proof. exact d_rename_spec. Qed.
Print Assumptions rename_moves_subtree.

Theorem bprefix_is_sfx : forall a m, bprefix a m <-> exists rest, Forall nodelim rest /\ m = a ++ sfx rest.
Proof. exact bprefix_sfx. Qed.
Print Assumptions bprefix_is_sfx.

(* renaming INBOX moves its contents and leaves a fresh empty INBOX; nothing
   else (in particular no inferior of INBOX) changes *)
Theorem rename_inbox : forall uid0 st a0 b0,
  dinv st -> norm a0 = INBOX ->
  o_cond (snd (dstep uid0 st (ORename a0 b0))) = COk ->
  let b := norm b0 in
  let st' := fst (dstep uid0 st (ORename a0 b0)) in
  alookup b (d_set st') = Some (d_inbox st)
  /\ d_inbox st' = fresh uid0 (d_next st)
  /\ (forall m, m <> b -> alookup m (d_set st') = alookup m (d_set st))
  /\ ~ in_closure (dnames st) b /\ b <> INBOX.
Proof. exact d_rename_inbox. Qed.
Print Assumptions rename_inbox.

(* maildir: every folder keeps its contents; the folders at or below the
   source get the destination in place of the source prefix (after the missing
   superiors of the destination were created empty).  RENAME INBOX is refused
   there (open finding C11-F2). *)
Theorem rename_moves_subtree_maildir : forall uid0 lay st a0 b0,
  o_cond (snd (mstep uid0 lay st (ORename a0 b0))) = COk ->
  let a := norm a0 in let b := norm b0 in
  let st' := fst (mstep uid0 lay st (ORename a0 b0)) in
  exists f1 nx,
    add_superiors uid0 (seq 1 (length (split b) - 1)) (split b) (x_folders st) (x_next st) = (f1, nx)
    /\ map snd (x_folders st') = map snd f1
    /\ map fst (x_folders st') = map (move_key a b) (map fst f1)
    /\ x_inbox st' = x_inbox st /\ x_subs st' = x_subs st
    /\ a <> INBOX /\ b <> INBOX
    /\ in_closure (INBOX :: folder_names st) a /\ ~ in_closure (INBOX :: folder_names st) b.
Proof. exact m_rename_spec. Qed.
Print Assumptions rename_moves_subtree_maildir.

Theorem move_key_under_source : forall a b k, bprefix a k ->
  exists rest, Forall nodelim rest /\ k = a ++ sfx rest /\ move_key a b k = b ++ sfx rest.
Proof. exact move_key_under. Qed.
Print Assumptions move_key_under_source.

Theorem move_key_elsewhere : forall a b k, ~ bprefix a k -> move_key a b k = k.
Proof. exact move_key_other. Qed.
Print Assumptions move_key_elsewhere.

(* ---- INBOX *)
Theorem inbox_protected : forall uid0 st prog, dinv st ->
  ~ In INBOX (map fst (d_set (drun uid0 st prog)))
  /\ (forall n0 b0, norm n0 = INBOX ->
        forall o, In o [OCreate n0; ODelete n0; ORename b0 n0] ->
        o_cond (snd (dstep uid0 st o)) <> COk /\ fst (dstep uid0 st o) = st).
Proof. exact d_inbox_protected. Qed.
Print Assumptions inbox_protected.

Theorem inbox_contents_kept : forall uid0 st o,
  (forall a b, o = ORename a b -> norm a <> INBOX) ->
  (forall n, o = OAppend n -> norm n <> INBOX) ->
  d_inbox (fst (dstep uid0 st o)) = d_inbox st.
Proof. exact d_inbox_kept. Qed.
Print Assumptions inbox_contents_kept.

Theorem inbox_protected_maildir : forall uid0 lay st n0 b0, norm n0 = INBOX ->
  forall o, In o [OCreate n0; ODelete n0; ORename b0 n0] ->
  exists k, o_cond (snd (mstep uid0 lay st o)) = CNo k /\ fst (mstep uid0 lay st o) = st.
Proof. exact m_inbox_guards. Qed.
Print Assumptions inbox_protected_maildir.

Theorem inbox_contents_kept_maildir : forall uid0 lay st o,
  (forall n, o = OAppend n -> norm n <> INBOX) ->
  x_inbox (fst (mstep uid0 lay st o)) = x_inbox st.
Proof. exact m_inbox_kept. Qed.
Print Assumptions inbox_contents_kept_maildir.

(* ---- errors *)
(* whatever is not answered OK changed nothing (dict: any condition) *)
Theorem error_no_effect : forall uid0 st o,
  o_cond (snd (dstep uid0 st o)) <> COk -> fst (dstep uid0 st o) = st.
Proof. exact d_error_no_effect. Qed.
Print Assumptions error_no_effect.

Theorem error_no_effect_maildir : forall uid0 lay st o k,
  o_cond (snd (mstep uid0 lay st o)) = CNo k -> fst (mstep uid0 lay st o) = st.
Proof. exact m_error_no_effect. Qed.
Print Assumptions error_no_effect_maildir.

(* no command of any program makes the dict model raise: every answer is OK or NO *)
Theorem no_server_bug : forall uid0 st o, dinv st -> o_cond (snd (dstep uid0 st o)) <> CExc.
Proof. exact d_no_exc. Qed.
Print Assumptions no_server_bug.

Theorem invariant_all_programs : forall uid0 prog st, dinv st -> dinv (drun uid0 st prog).
Proof. exact d_inv_run. Qed.
Print Assumptions invariant_all_programs.

(* [create_name n0] is the name CREATE makes (INBOX case folding, one trailing
   hierarchy delimiter dropped, RFC 3501 6.3.3) or the refusal code (INBOX
   itself, a name that is INBOX after dropping the delimiter, a first component
   spelled like INBOX in another case); an existing name is refused, a new
   one is created empty *)
Theorem create_spec : forall uid0 st n0,
  let st' := fst (dstep uid0 st (OCreate n0)) in
  let out := snd (dstep uid0 st (OCreate n0)) in
  (forall k, create_name n0 = inr k -> o_cond out = CNo k /\ st' = st)
  /\ (forall n, create_name n0 = inl n ->
       n <> INBOX
       /\ (In n (map fst (d_set st)) -> o_cond out <> COk /\ st' = st)
       /\ (~ In n (map fst (d_set st)) ->
           o_cond out = COk
           /\ alookup n (d_set st') = Some (fresh uid0 (d_next st))
           /\ (forall m, m <> n -> alookup m (d_set st') = alookup m (d_set st))
           /\ d_inbox st' = d_inbox st /\ d_subs st' = d_subs st)).
Proof. exact d_create_spec. Qed.
Print Assumptions create_spec.

Theorem delete_spec : forall uid0 st n0, dinv st ->
  let n := norm n0 in
  let st' := fst (dstep uid0 st (ODelete n0)) in
  let out := snd (dstep uid0 st (ODelete n0)) in
  (n = INBOX \/ ~ In n (map fst (d_set st)) -> o_cond out <> COk /\ st' = st)
  /\ (n <> INBOX -> In n (map fst (d_set st)) ->
      o_cond out = COk
      /\ alookup n (d_set st') = None
      /\ (forall m, m <> n -> alookup m (d_set st') = alookup m (d_set st))
      /\ d_inbox st' = d_inbox st /\ d_subs st' = d_subs st).
Proof. exact d_delete_spec. Qed.
Print Assumptions delete_spec.

Theorem rename_refused : forall uid0 st a0 b0,
  (exists k, rename_dest b0 = inr k)
  \/ ~ in_closure (dnames st) (norm a0) \/ in_closure (dnames st) (norm b0) ->
  o_cond (snd (dstep uid0 st (ORename a0 b0))) <> COk /\ fst (dstep uid0 st (ORename a0 b0)) = st.
Proof. exact d_rename_refused. Qed.
Print Assumptions rename_refused.

Theorem missing_refused : forall uid0 st n0,
  norm n0 <> INBOX -> ~ In (norm n0) (map fst (d_set st)) ->
  forall o, In o [OStatus n0; OSelect n0; OAppend n0] ->
  o_cond (snd (dstep uid0 st o)) <> COk /\ fst (dstep uid0 st o) = st.
Proof. exact d_missing_refused. Qed.
Print Assumptions missing_refused.

(* ---- maildir: the same refusals, and no escaping exception *)
Theorem missing_refused_maildir : forall uid0 lay st n0,
  norm n0 <> INBOX -> ~ In (norm n0) (map fst (x_folders st)) ->
  forall o, In o [OStatus n0; OSelect n0; OAppend n0; ODelete n0] ->
  exists k, o_cond (snd (mstep uid0 lay st o)) = CNo k /\ fst (mstep uid0 lay st o) = st.
Proof. exact m_missing_refused. Qed.
Print Assumptions missing_refused_maildir.

Theorem create_refused_maildir : forall uid0 lay st n0,
  (exists k, create_name n0 = inr k)
  \/ (exists n, create_name n0 = inl n /\ In n (map fst (x_folders st))) ->
  exists k, o_cond (snd (mstep uid0 lay st (OCreate n0))) = CNo k
            /\ fst (mstep uid0 lay st (OCreate n0)) = st.
Proof. exact m_create_refused. Qed.
Print Assumptions create_refused_maildir.

Theorem rename_refused_maildir : forall uid0 lay st a0 b0,
  (exists k, rename_dest b0 = inr k)
  \/ ~ in_closure (INBOX :: folder_names st) (norm a0)
  \/ in_closure (INBOX :: folder_names st) (norm b0) ->
  exists k, o_cond (snd (mstep uid0 lay st (ORename a0 b0))) = CNo k
            /\ fst (mstep uid0 lay st (ORename a0 b0)) = st.
Proof. exact m_rename_refused. Qed.
Print Assumptions rename_refused_maildir.

(* fs layout: along every program every folder's superiors are folders
   ([pclosed]), hence the os.rename of RENAME always finds its source: no
   command of any program escapes as an exception; the ++ layout has no such
   call at all *)
Theorem no_server_bug_maildir_fs : forall uid0 prog o,
  o_cond (snd (mstep uid0 LFs (mrun uid0 LFs md_init prog) o)) <> CExc.
Proof. exact fs_no_exc_run. Qed.
Print Assumptions no_server_bug_maildir_fs.

Theorem superiors_are_folders_fs : forall uid0 st o,
  pclosed (x_folders st) -> pclosed (x_folders (fst (mstep uid0 LFs st o))).
Proof. exact pclosed_step. Qed.
Print Assumptions superiors_are_folders_fs.

Theorem no_server_bug_maildir_plus : forall uid0 st o, o_cond (snd (mstep uid0 LPlus st o)) <> CExc.
Proof. exact plus_no_exc. Qed.
Print Assumptions no_server_bug_maildir_plus.

(* the invariant is satisfiable: an empty store *)
Theorem invariant_example : dinv demo_state.
Proof. exact demo_state_inv. Qed.
Print Assumptions invariant_example.

(* ---- the subscriptions file of the maildir backend (Namespace/SubsFile.v):
   [mstep] keeps the subscribed names as the list [x_subs]; the code keeps them
   in a line-oriented UTF-8 text file that every SUBSCRIBE / UNSUBSCRIBE / LSUB
   re-reads.  [write_file]/[read_file] are Subscriptions.write/.read at the
   byte level. *)
From PV Require Import Namespace.SubsFile Namespace.SubsFileProofs.

(* UTF-8: decoding inverts encoding on every string without lone surrogates *)
Theorem subs_utf8_roundtrip : forall s b, utf8_encode s = Some b -> utf8_decode b = Some s.
Proof. exact utf8_roundtrip. Qed.
Print Assumptions subs_utf8_roundtrip.

(* names without CR / LF / lone surrogates are read back exactly (as the dict
   of the names written); any other code point is data *)
Theorem subscriptions_file_roundtrip : forall names, forallb line_safe names = true ->
  exists b, write_file names = Some b /\ read_file b = Some (dedup names).
Proof. exact file_roundtrip. Qed.
Print Assumptions subscriptions_file_roundtrip.

Theorem subscriptions_file_roundtrip_nodup : forall names,
  forallb line_safe names = true -> NoDup names ->
  exists b, write_file names = Some b /\ read_file b = Some names.
Proof. exact file_roundtrip_nodup. Qed.
Print Assumptions subscriptions_file_roundtrip_nodup.

(* VT FF FS GS RS NEL LS PS — line boundaries of str.splitlines() — inside a
   name are part of the name *)
Theorem subscriptions_splitlines_chars_are_data : forall a c z, In c splitlines_extra ->
  line_safe a = true -> line_safe z = true ->
  exists b, write_file [a ++ c :: z] = Some b /\ read_file b = Some [a ++ c :: z].
Proof. exact splitlines_chars_are_data. Qed.
Print Assumptions subscriptions_splitlines_chars_are_data.

(* the name guard of both layouts lets through only what the file can carry *)
Theorem maildir_guard_line_safe : forall lay n,
  lsplit lay n <> None -> pystr n -> line_safe n = true.
Proof. exact lsplit_line_safe. Qed.
Print Assumptions maildir_guard_line_safe.

(* along every program the list [x_subs] of the model is what the file gives
   back: the model's silence about the file is justified *)
Theorem subscriptions_model_is_the_file : forall uid0 lay prog st,
  subs_ok lay (x_subs st) ->
  let st' := mrun uid0 lay st prog in
  (forall n, In n (x_subs st') -> pystr n) ->
  exists b, write_file (x_subs st') = Some b /\ read_file b = Some (x_subs st').
Proof. exact md_subs_file_faithful. Qed.
Print Assumptions subscriptions_model_is_the_file.

Theorem subscriptions_invariant_example : forall lay, subs_ok lay [].
Proof. exact subs_ok_empty. Qed.
Print Assumptions subscriptions_invariant_example.
