(* Props/C18.v — How an argument is spelled does not change what it means.
   Only statements, each closed by [exact] and followed by Print Assumptions.
   Models: Wire/Strings.v, CmdLine.v, ModUtf7.v, SeqSet.v, Flag.v, DateTime.v
   (tied to /repo by harness/props/C18*.py on every run). *)
From PV Require Import Base.Prelude Base.Decimal Wire.Lex Wire.SeqSet Wire.SeqSetProofs
  Wire.Strings Wire.StringsProofs Wire.ModUtf7 Wire.ModUtf7Proofs Wire.CmdLine
  Wire.CmdLineProofs Wire.CmdArgsProofs Wire.Flag Wire.FlagProofs Wire.DateTime Wire.DateTimeProofs
  Wire.DateTimeChars.

(* ===================== 1. one value, four spellings ======================= *)

(* AString.parse: for every byte string v and every spelling the grammar
   allows for it (atom: v non-empty, astring characters only; quoted: no CR/LF;
   {n}: n within the literal limit, continuations allowed; {n+}: n within the
   limit), after any number k of extra spaces, the parser returns the value v,
   leaves exactly what follows the argument ([rest]; for a synchronizing literal
   it arrives in the continuation buffer) and uses up exactly its own
   continuation. *)
Theorem C18_astring_spelling : forall p sp v k rest cs,
  spelling_ok p sp v = true ->
  (sp = SpAtom -> head_sat astring_char rest = false) ->
  parse_astring p (spell_conts sp v rest cs) (repeat SP k ++ spell_buf sp v rest)
  = POk (v, spell_raw sp v) rest cs.
Proof. exact astring_spelling. Qed.
Print Assumptions C18_astring_spelling.

(* the same for String.parse (quoted, {n}, {n+}) *)
Theorem C18_string_spelling : forall p sp v k rest cs,
  sp <> SpAtom -> spelling_ok p sp v = true ->
  parse_string p (spell_conts sp v rest cs) (repeat SP k ++ spell_buf sp v rest)
  = POk (v, spell_raw sp v) rest cs.
Proof. exact string_spelling. Qed.
Print Assumptions C18_string_spelling.

(* a synchronizing literal whose continuation has not arrived interrupts the
   parse with a request for exactly its announced size *)
Theorem C18_sync_literal_requests_continuation : forall p v k,
  spelling_ok p SpLit v = true ->
  parse_astring p [] (repeat SP k ++ spell_line SpLit v) = PNeed (blen v).
Proof. exact astring_lit_needs_cont. Qed.
Print Assumptions C18_sync_literal_requests_continuation.

(* The same for an argument read with another atom class (ListCommand reads
   its pattern with the list-mailbox class, which has the wildcards) *)
Theorem C18_cstring_spelling : forall cls p sp v k rest cs,
  cls SP = false -> cls DQUOTE = false -> cls LBRACE = false ->
  spelling_okc cls p sp v = true ->
  (sp = SpAtom -> head_sat cls rest = false) ->
  parse_cstring cls p (spell_conts sp v rest cs) (repeat SP k ++ spell_buf sp v rest)
  = POk (v, spell_raw sp v) rest cs.
Proof. exact cstring_spelling. Qed.
Print Assumptions C18_cstring_spelling.

(* The whole path of a command (IMAPConnection.readline with LITERAL+ gluing,
   read_continuation, the re-parse loop, Commands.parse), for the commands
   built from astrings, mailboxes, list-mailbox patterns, sequence sets and
   status attribute lists (LOGIN, DELETE, SUBSCRIBE, UNSUBSCRIBE, CREATE,
   SELECT, EXAMINE, RENAME, STATUS, LIST, LSUB, COPY, MOVE, the no-argument
   commands; any table of such shapes): whatever the spelling of each string
   argument, the letter case of the command word [w], the number of spaces
   before the word (kw), before each argument and before the end of the line
   (ke), and the line ending (CRLF / LF), the server consumes exactly the bytes
   of the command ([next], the following pipelined bytes, stays unread), sends
   one continuation request per synchronizing literal, and delivers the command
   with the upper-cased word and the argument VALUES.  [arg_ok] says that a
   string argument is in a spelling its position admits and that a raw argument
   (sequence set, attribute list) is a text its parser reads back whole. *)
Theorem C18_command_spelling : forall table p tag kw w kinds opts args ke crlf next vals,
  tag <> [] -> forallb tag_char tag = true ->
  (1 <= kw)%nat -> w <> [] -> forallb atom_char w = true ->
  lookup (upper_bytes w) table = Some (kinds, opts) ->
  Forall2 (arg_ok p) kinds args -> interp_all kinds args = Some vals ->
  read_command table p (cmd_wire tag kw w args ke crlf ++ next)
  = Ok (Cmd tag (upper_bytes w) vals, next, count_sync args).
Proof. exact command_spelling. Qed.
Print Assumptions C18_command_spelling.

(* ... hence two wire forms with the same tag, the same word up to letter
   case and the same argument values are read as the same command *)
Theorem C18_command_spelling_independent :
  forall table p tag kinds opts vals kw1 w1 args1 ke1 crlf1 kw2 w2 args2 ke2 crlf2 next1 next2,
  tag <> [] -> forallb tag_char tag = true ->
  (1 <= kw1)%nat -> w1 <> [] -> forallb atom_char w1 = true ->
  (1 <= kw2)%nat -> w2 <> [] -> forallb atom_char w2 = true ->
  upper_bytes w1 = upper_bytes w2 ->
  lookup (upper_bytes w1) table = Some (kinds, opts) ->
  Forall2 (arg_ok p) kinds args1 -> Forall2 (arg_ok p) kinds args2 ->
  interp_all kinds args1 = Some vals -> interp_all kinds args2 = Some vals ->
  exists c, read_command table p (cmd_wire tag kw1 w1 args1 ke1 crlf1 ++ next1)
            = Ok (c, next1, count_sync args1) /\
            read_command table p (cmd_wire tag kw2 w2 args2 ke2 crlf2 ++ next2)
            = Ok (c, next2, count_sync args2).
Proof. exact command_spelling_independent. Qed.
Print Assumptions C18_command_spelling_independent.

(* the raw arguments of the command table meet [arg_ok]: every printed
   sequence set, every printed non-empty list of status attributes *)
Theorem C18_raw_seq_ok : forall p s n, wf_seqset s = true -> (1 <= n)%nat ->
  arg_ok p (ARaw RSeq) (WRaw n (print_seqset s) (VSeq s)).
Proof. exact raw_seq_ok. Qed.
Print Assumptions C18_raw_seq_ok.

Theorem C18_raw_attrs_ok : forall p l n, l <> [] -> Forall is_status l -> (1 <= n)%nat ->
  arg_ok p (ARaw RAttrs) (WRaw n (print_attrs l) (VAttrs l)).
Proof. exact raw_attrs_ok. Qed.
Print Assumptions C18_raw_attrs_ok.

Theorem C18_attr_list_roundtrip : forall l k rest, l <> [] -> Forall is_status l ->
  parse_attr_list (repeat SP k ++ print_attrs l ++ rest) = Ok (l, rest).
Proof. exact attr_list_roundtrip. Qed.
Print Assumptions C18_attr_list_roundtrip.

(* two instances on the real command table, hypotheses discharged: STATUS
   (spelled mailbox + attribute list) and COPY (sequence set + spelled mailbox) *)
Theorem C18_status_spelling : forall p tag kw w a l n ke crlf next name,
  tag <> [] -> forallb tag_char tag = true -> (1 <= kw)%nat ->
  upper_bytes w = w_STATUS -> w <> [] -> forallb atom_char w = true ->
  arg_ok p AMbox (WStr a) -> mbox_of_bytes (sa_val a) = Some name ->
  l <> [] -> Forall is_status l -> (1 <= n)%nat ->
  read_command cmd_table p (cmd_wire tag kw w [WStr a; WRaw n (print_attrs l) (VAttrs l)] ke crlf ++ next)
  = Ok (Cmd tag w_STATUS [VMbox name; VAttrs l], next, count_sync [WStr a]).
Proof. exact status_spelling. Qed.
Print Assumptions C18_status_spelling.

Theorem C18_copy_spelling : forall p tag kw w s n a ke crlf next name,
  tag <> [] -> forallb tag_char tag = true -> (1 <= kw)%nat ->
  upper_bytes w = w_COPY -> w <> [] -> forallb atom_char w = true ->
  wf_seqset s = true -> (1 <= n)%nat ->
  arg_ok p AMbox (WStr a) -> mbox_of_bytes (sa_val a) = Some name ->
  read_command cmd_table p (cmd_wire tag kw w [WRaw n (print_seqset s) (VSeq s); WStr a] ke crlf ++ next)
  = Ok (Cmd tag w_COPY [VSeq s; VMbox name], next, count_sync [WStr a]).
Proof. exact copy_spelling. Qed.
Print Assumptions C18_copy_spelling.

(* The atom spelling is admitted for the implementation's astring class, which
   is the RFC's ASTRING-CHAR class minus the closing brace ... *)
Theorem C18_astring_char_rfc : forall c, c <> RBRACE -> astring_char c = rfc_astring_char c.
Proof. exact astring_char_rfc. Qed.
Print Assumptions C18_astring_char_rfc.

(* ... and for that one byte the statement is refuted (open finding C18-F3):
   an RFC-legal atom is refused while its quoted spelling is accepted *)
Theorem C18_atom_rbrace_refuted :
  exists v, v <> [] /\ forallb rfc_astring_char v = true /\
    parse_astring default_sparams [] (v ++ [SP]) = PFail /\
    parse_astring default_sparams [] (print_quoted v ++ [SP]) = POk (v, print_quoted v) [SP] [].
Proof. exact atom_rbrace_refuted. Qed.
Print Assumptions C18_atom_rbrace_refuted.

(* ===================== 2. strings: print / parse ========================== *)

(* QuotedString: escaping of dquote and backslash; any value without CR/LF *)
Theorem C18_quoted_roundtrip : forall v k rest, no_crlf v = true ->
  parse_quoted (repeat SP k ++ print_quoted v ++ rest) = Some (v, print_quoted v, rest).
Proof. exact quoted_roundtrip. Qed.
Print Assumptions C18_quoted_roundtrip.

(* a PARSED quoted string: its cached raw form is exactly the bytes consumed
   (after the leading spaces), and serialising it in any other context parses
   to the same value, consuming exactly the serialised bytes *)
Theorem C18_parsed_quoted_reserialise : forall b v raw rest,
  parse_quoted b = Some (v, raw, rest) ->
  skip_spaces b = raw ++ rest /\ no_crlf v = true /\
  (forall k rest', parse_quoted (repeat SP k ++ raw ++ rest') = Some (v, raw, rest')).
Proof. exact parse_quoted_spec. Qed.
Print Assumptions C18_parsed_quoted_reserialise.

(* LiteralString: prefix {n} CRLF then the payload as continuation, or {n+}
   with the payload in place; binary mark kept *)
Theorem C18_literal_roundtrip : forall p cs k bin v rest,
  too_big p (blen v) = false -> sp_allow_cont p = true ->
  parse_literal p ((v ++ rest) :: cs) (repeat SP k ++ lit_prefix bin (blen v)) = POk (v, bin) rest cs.
Proof. exact literal_sync_parse. Qed.
Print Assumptions C18_literal_roundtrip.

Theorem C18_literal_plus_roundtrip : forall p cs k v rest, too_big p (blen v) = false ->
  parse_literal p cs (repeat SP k ++ lit_plus_prefix (blen v) ++ v ++ rest) = POk (v, false) rest cs.
Proof. exact literal_plus_parse. Qed.
Print Assumptions C18_literal_plus_roundtrip.

(* String.build (quoted when short and free of CR, LF, NUL; literal otherwise) *)
Theorem C18_string_build_roundtrip : forall p binary v k rest cs,
  (build_is_quoted binary v = false -> too_big p (blen v) = false /\ sp_allow_cont p = true) ->
  if build_is_quoted binary v
  then parse_string p cs (repeat SP k ++ string_build binary v ++ rest)
       = POk (v, string_build binary v) rest cs
  else parse_string p ((v ++ rest) :: cs) (repeat SP k ++ lit_prefix binary (blen v))
       = POk (v, string_build binary v) rest cs.
Proof. exact string_build_roundtrip. Qed.
Print Assumptions C18_string_build_roundtrip.

(* any parsed String object serialised again (cached raw form of a quoted
   string, prefix + payload of a literal) parses to the same value *)
Theorem C18_parsed_string_reserialise : forall p cs b v raw rest cs',
  sp_allow_cont p = true ->
  parse_string p cs b = POk (v, raw) rest cs' ->
  (forall k rest' cs2, parse_string p cs2 (repeat SP k ++ raw ++ rest') = POk (v, raw) rest' cs2)
  \/ (exists bin, raw = lit_prefix bin (blen v) ++ v /\
      forall k rest' cs2, parse_string p ((v ++ rest') :: cs2) (repeat SP k ++ lit_prefix bin (blen v))
                          = POk (v, raw) rest' cs2).
Proof. exact parsed_string_reserialise. Qed.
Print Assumptions C18_parsed_string_reserialise.

(* bytes(AString(v)) : atom when possible, quoted otherwise *)
Theorem C18_astring_print_roundtrip : forall p v k rest cs,
  no_crlf v = true -> (is_astring_atom v = true -> head_sat astring_char rest = false) ->
  parse_astring p cs (repeat SP k ++ print_astring v ++ rest) = POk (v, print_astring v) rest cs.
Proof. exact astring_print_roundtrip. Qed.
Print Assumptions C18_astring_print_roundtrip.

(* ===================== 3. mailbox names =================================== *)

(* decode (encode s) = s for every string of Unicode scalar values; base64 of
   the UTF-16-BE form (surrogate pairs for astral code points) read back by
   the utf-7 codec's bit buffer *)
Theorem C18_modutf7_roundtrip : forall s, Forall is_scalar s ->
  modutf7_decode (modutf7_encode s) = Ok s.
Proof. exact modutf7_roundtrip. Qed.
Print Assumptions C18_modutf7_roundtrip.

Theorem C18_modified_base64_roundtrip : forall run, run <> [] -> Forall is_scalar run ->
  mb64_decode (mb64 run) = Ok run.
Proof. exact mb64_roundtrip. Qed.
Print Assumptions C18_modified_base64_roundtrip.

(* the encoded name is printable ASCII (so its astring form is well-formed) *)
Theorem C18_modutf7_encode_printable : forall s, Forall is_scalar s ->
  forallb printable (modutf7_encode s) = true.
Proof. exact modutf7_encode_printable. Qed.
Print Assumptions C18_modutf7_encode_printable.

(* what LIST and STATUS print for a name (bytes(Mailbox(name))) parses, as a
   mailbox argument, to that name — up to Mailbox's own INBOX normalisation *)
Theorem C18_mailbox_report_roundtrip : forall p name k rest cs,
  Forall is_scalar name -> head_sat astring_char rest = false ->
  parse_mailbox p cs (repeat SP k ++ print_mailbox name ++ rest) = POk (mailbox_norm name) rest cs.
Proof. exact mailbox_report_roundtrip. Qed.
Print Assumptions C18_mailbox_report_roundtrip.

Theorem C18_mailbox_report_roundtrip_plain : forall p name k rest cs,
  Forall is_scalar name -> is_inbox_str name = false -> head_sat astring_char rest = false ->
  parse_mailbox p cs (repeat SP k ++ print_mailbox name ++ rest) = POk name rest cs.
Proof. exact mailbox_report_roundtrip_plain. Qed.
Print Assumptions C18_mailbox_report_roundtrip_plain.

(* ===================== 4. sequence sets, numbers ========================== *)

(* serialising any parsed sequence set and parsing it again yields the same
   value while consuming exactly its own bytes (any following bytes [rest]
   that cannot extend a sequence set are left untouched) *)
Theorem C18_seqset_roundtrip : forall s rest,
  wf_seqset s = true -> seq_terminator rest = true ->
  parse_seqset (print_seqset s ++ rest) = Ok (s, rest).
Proof. exact seqset_roundtrip. Qed.
Print Assumptions C18_seqset_roundtrip.

(* decimal numerals: print-then-parse, exact consumption *)
Theorem C18_number_roundtrip : forall n rest,
  head_is_digit rest = false -> parse_number (dec_of_N n ++ rest) = Some (n, rest).
Proof. exact parse_number_print. Qed.
Print Assumptions C18_number_roundtrip.

(* ===================== 5. flags =========================================== *)

(* every flag the parser delivers is well-formed ... *)
Theorem C18_parse_flag_wf : forall b v rest, parse_flag b = Some (v, rest) -> wf_flag v = true.
Proof. exact parse_flag_wf. Qed.
Print Assumptions C18_parse_flag_wf.

(* ... and every well-formed flag (keyword, or backslash + capitalised atom)
   printed and parsed again gives the same flag, consuming exactly its bytes *)
Theorem C18_flag_roundtrip : forall v k rest,
  wf_flag v = true -> flag_terminator rest = true ->
  parse_flag (repeat SP k ++ print_flag v ++ rest) = Some (v, rest).
Proof. exact flag_roundtrip. Qed.
Print Assumptions C18_flag_roundtrip.

(* system flags are case-normalised: spellings differing in letter case only
   parse to the same flag *)
Theorem C18_flag_case_insensitive : forall a a' k k' rest,
  a <> [] -> forallb atom_char a = true -> forallb atom_char a' = true ->
  lower_bytes a = lower_bytes a' -> flag_terminator rest = true ->
  parse_flag (repeat SP k ++ BSLASH :: a ++ rest) = Some (BSLASH :: capitalize a, rest) /\
  parse_flag (repeat SP k' ++ BSLASH :: a' ++ rest) = Some (BSLASH :: capitalize a, rest).
Proof. exact flag_case_insensitive. Qed.
Print Assumptions C18_flag_case_insensitive.

(* ===================== 6. date-times ====================================== *)

(* every date-time the parser delivers passes the calendar and range checks
   (year 1..9999, month table, day within the month incl. the leap-year rule,
   time of day, zone strictly within 24 h) ... *)
Theorem C18_parse_datetime_valid : forall b d raw rest,
  parse_datetime b = Some (d, raw, rest) -> valid_dt d = true.
Proof. exact parse_datetime_valid. Qed.
Print Assumptions C18_parse_datetime_valid.

(* ... and every such value whose zone is a whole number of minutes, printed
   (two-digit day, month name, four-digit year, +HHMM zone) and parsed again,
   gives the same value, consuming exactly the printed bytes, whatever follows *)
Theorem C18_datetime_roundtrip : forall d k rest, wf_dt d = true ->
  parse_datetime (repeat SP k ++ print_datetime d ++ rest) = Some (d, print_datetime d, rest).
Proof. exact datetime_roundtrip. Qed.
Print Assumptions C18_datetime_roundtrip.

(* The PARSED DateTime object serialises as dquote + its cached string value +
   dquote; the text of every date-time strptime accepts holds neither a dquote
   nor a backslash, so that form parses back to the same value, consuming
   exactly the serialised bytes, after any spaces and whatever follows *)
Theorem C18_parsed_datetime_reserialise : forall b d raw rest,
  parse_datetime b = Some (d, raw, rest) ->
  forall k rest', parse_datetime (repeat SP k ++ raw ++ rest') = Some (d, raw, rest').
Proof. exact parsed_datetime_reserialise. Qed.
Print Assumptions C18_parsed_datetime_reserialise.

(* ============ 7. spellings under a configuration, at any size ============= *)
(* Model Cmd/FramingLimit.v over Cmd/Framing.v (readline / read_continuation):
   the server is configured with Config(max_append_len = ...) (APPENDLIMIT). *)
From PV Require Cmd.CLex Cmd.Framing Cmd.FramingLimit Cmd.FramingLimitProofs.
Module C18Limit.
Import PV.Cmd.CLex PV.Cmd.Framing PV.Cmd.FramingLimit PV.Cmd.FramingLimitProofs.

(* For every configuration c (every max_append_len, or none), APPEND or any
   other command, every size n (also 0, also above every limit), every data of
   n bytes (any bytes: lines that look like commands or like literal markers),
   every LF-free head and rest-of-line, every following bytes [next]:
   - the {n+} spelling  head {n+} CRLF data tail CRLF  is consumed whole by the
     first readline - nothing of the literal is left to be read as a command -
     with no continuation request, and the server then reads [next];
   - the answer class (accepted / refused as too big) is lit_class c app n,
     the same as for the {n} spelling sent by a client that waits for the
     continuation request (one request iff accepted), after which the server
     reads [next] as well. *)
Theorem C18_literal_limit_spelling : forall c app head n data tail next,
  no_lf head = true -> tail_ok tail -> N.of_nat (length data) = n ->
  too_many_digits (dec_of_N n) = false ->
  serve_command c app [(LPlus, n)] (wire_plus head n data tail next)
    = Some (lit_class c app n, 0%N, next) /\
  serve_command c app [(LSync, n)] (wire_sync c app head n data tail next)
    = Some (lit_class c app n, (if lit_too_big c app n then 0%N else 1%N), next).
Proof. exact literal_limit_spelling. Qed.
Print Assumptions C18_literal_limit_spelling.

(* Any command line all of whose literals are {n+}, on ANY stream: whatever the
   configuration and whatever the sizes, the unread rest is exactly the one of
   readline (Cmd/Framing.v read_unit 0) and no continuation is requested; the
   limit decides only the answer. *)
Theorem C18_litplus_consumed_any_limit : forall c app lits s u r,
  Forall (fun x : lspell * N => fst x = LPlus) lits ->
  read_unit 0%N s = Some (u, r) ->
  serve_command c app lits s
  = Some ((if any_too_big c app lits then LTooBig else LAccept), 0%N, r).
Proof. exact litplus_consumed_any_limit. Qed.
Print Assumptions C18_litplus_consumed_any_limit.

(* the boundary: exactly the limit is accepted, one byte more is refused; the
   limit is max_append_len for APPEND (whatever the letter case of the command
   word: [app] is decided on the upper-cased word) and 4096 otherwise *)
Theorem C18_literal_limit_boundary : forall c app m,
  lit_limit c app = Some m ->
  lit_class c app m = LAccept /\ lit_class c app (m + 1) = LTooBig.
Proof. exact lit_class_boundary. Qed.
Print Assumptions C18_literal_limit_boundary.
End C18Limit.
