(* Props/C18.v — How an argument is spelled does not change what it means.
   Only statements, each closed by [exact] and followed by Print Assumptions. *)
From PV Require Import Base.Prelude Base.Decimal Wire.SeqSet Wire.SeqSetProofs.

(* serialising any parsed sequence set and parsing it again yields the same
   value while consuming exactly its own bytes (any following bytes [rest]
   that cannot extend a sequence set are left untouched) *)
Theorem C18_seqset_roundtrip : forall s rest,
  wf_seqset s = true -> seq_terminator rest = true ->
  parse_seqset (print_seqset s ++ rest) = Ok (s, rest).
Proof. exact seqset_roundtrip. Qed.
Print Assumptions C18_seqset_roundtrip.

(* decimal numerals: print-then-parse, exact consumption *)
Theorem C18_number_roundtrip : forall n rest,
  head_is_digit rest = false -> parse_number (dec_of_N n ++ rest) = Some (n, rest).
Proof. exact parse_number_print. Qed.
Print Assumptions C18_number_roundtrip.
