(* Props/C13.v — SEARCH returns exactly the matching messages.
   Only statements, each closed by [exact] and followed by Print Assumptions.

   key / eval_spec / spec_search : RFC 3501 §6.4.4 (Search/Keys.v, Search/Spec.v)
   compile                       : the value pymap's parser builds for a key
   crit_of / matches / find / sequence_set / search_model
                                 : pymap/search.py, selected.py get_all,
                                   session.search_mailbox, state.do_search
   (Search/Model.v; its dispatch and requirement are read from the GENERATED
   Search/KeyTable.v).  A view is well-formed when its messages are numbered
   1..n with strictly ascending UIDs and each message's observed sent date is
   what the date-parser model (Search/SentDate.v) computes from the source
   value of its Date: field wherever that model applies; wf_key asks header
   field names to be ASCII (anything else raises before the search starts) and
   parenthesised lists to be non-empty (the parser refuses "()").  Both are
   re-checked on every correspondence case. *)
From PV Require Import Base.Prelude Wire.SeqSet Search.Text Search.Keys Search.Msg
     Search.Spec Search.Model Search.TextProofs Search.SearchProofs
     Search.KeyRow Search.KeyTable Search.Grammar.

(* For every key (any nesting depth), every message of every view: building
   the criteria object succeeds and it decides what RFC 3501 says. *)
Theorem C13 : forall k m v,
  wf_view v = true -> In m v -> wf_key k = true ->
  model_matches (compile k) m v = Ok (eval_spec k m v).
Proof. exact model_matches_spec. Qed.
Print Assumptions C13.

(* The whole command: SEARCH / UID SEARCH of any program on any view returns
   exactly the messages of the view that satisfy the program (the conjunction
   of its keys), whichever sequence set the pre-filter happens to pick. *)
Theorem C13_search : forall choice uid prog v,
  wf_view v = true -> forallb wf_key prog = true ->
  search_model [] choice uid (map compile prog) v = Ok (spec_search uid prog v).
Proof. exact search_model_spec. Qed.
Print Assumptions C13_search.

(* The sequence_set pre-filter (find over one of the top-level sequence-set
   criteria instead of over the whole view) never changes the result. *)
Theorem prefilter_sound : forall dis prog v cs choice,
  wf_view v = true ->
  crits_of dis (params_of v) prog = Ok cs ->
  filter (fun m => forallb (fun c => matches c m) cs) (find (sequence_set choice cs) v) =
  filter (fun m => forallb (fun c => matches c m) cs) v.
Proof. exact SearchProofs.prefilter_sound. Qed.
Print Assumptions prefilter_sound.

(* The keys of a command are kept in a frozenset: neither its iteration
   order nor the merging of duplicates changes the conjunction. *)
Theorem conj_order_irrelevant : forall cs1 cs2 m,
  (forall c, In c cs1 <-> In c cs2) ->
  forallb (fun c => matches c m) cs1 = forallb (fun c => matches c m) cs2.
Proof. exact SearchProofs.conj_order_irrelevant. Qed.
Print Assumptions conj_order_irrelevant.

(* SEARCH and UID SEARCH of the same program report the same messages: the
   k-th UID is the UID of the k-th sequence number in the view ... *)
Theorem uid_vs_seq : forall choice prog v,
  wf_view v = true -> forallb wf_key prog = true ->
  exists rs ru,
    search_model [] choice false (map compile prog) v = Ok rs /\
    search_model [] choice true (map compile prog) v = Ok ru /\
    Forall2 (fun s u => uid_at v s = Some u) rs ru.
Proof. exact SearchProofs.uid_vs_seq. Qed.
Print Assumptions uid_vs_seq.

(* ... and that map is one-to-one on the view. *)
Theorem uid_vs_seq_bijective : forall v m1 m2,
  wf_view v = true -> In m1 v -> In m2 v ->
  uid_at v (m_seq m1) = uid_at v (m_seq m2) -> m_seq m1 = m_seq m2.
Proof. exact uid_at_injective. Qed.
Print Assumptions uid_vs_seq_bijective.

(* Logically equivalent programs return the same result. *)
Theorem equivalent_programs : forall choice uid p1 p2 v,
  wf_view v = true -> forallb wf_key p1 = true -> forallb wf_key p2 = true ->
  (forall m, In m v -> sat p1 v m = sat p2 v m) ->
  search_model [] choice uid (map compile p1) v = search_model [] choice uid (map compile p2) v.
Proof. exact SearchProofs.equivalent_programs. Qed.
Print Assumptions equivalent_programs.

Theorem not_not : forall choice uid v rest,
  wf_view v = true -> forallb wf_key rest = true -> forall k, wf_key k = true ->
  search_model [] choice uid (map compile ([KNot (KNot k)] ++ rest)) v =
  search_model [] choice uid (map compile ([k] ++ rest)) v.
Proof. exact SearchProofs.not_not. Qed.
Print Assumptions not_not.

Theorem not_not_paren : forall choice uid v rest,
  wf_view v = true -> forallb wf_key rest = true -> forall k, wf_key k = true ->
  search_model [] choice uid (map compile ([KNot (KAnd [KNot k])] ++ rest)) v =
  search_model [] choice uid (map compile ([k] ++ rest)) v.
Proof. exact SearchProofs.not_not_paren. Qed.
Print Assumptions not_not_paren.

Theorem or_comm : forall choice uid v rest,
  wf_view v = true -> forallb wf_key rest = true ->
  forall a b, wf_key a = true -> wf_key b = true ->
  search_model [] choice uid (map compile ([KOr a b] ++ rest)) v =
  search_model [] choice uid (map compile ([KOr b a] ++ rest)) v.
Proof. exact SearchProofs.or_comm. Qed.
Print Assumptions or_comm.

Theorem and_assoc : forall choice uid v rest,
  wf_view v = true -> forallb wf_key rest = true ->
  forall a b c, wf_key a = true -> wf_key b = true -> wf_key c = true ->
  search_model [] choice uid (map compile ([KAnd [a; KAnd [b; c]]] ++ rest)) v =
  search_model [] choice uid (map compile ([KAnd [KAnd [a; b]; c]] ++ rest)) v /\
  search_model [] choice uid (map compile ([KAnd [a; KAnd [b; c]]] ++ rest)) v =
  search_model [] choice uid (map compile ([a; b; c] ++ rest)) v.
Proof. exact SearchProofs.and_assoc. Qed.
Print Assumptions and_assoc.

Theorem demorgan : forall choice uid v rest,
  wf_view v = true -> forallb wf_key rest = true ->
  forall a b, wf_key a = true -> wf_key b = true ->
  search_model [] choice uid (map compile ([KNot (KOr a b)] ++ rest)) v =
  search_model [] choice uid (map compile ([KNot a; KNot b] ++ rest)) v /\
  search_model [] choice uid (map compile ([KNot (KAnd [a; b])] ++ rest)) v =
  search_model [] choice uid (map compile ([KOr (KNot a) (KNot b)] ++ rest)) v.
Proof. exact SearchProofs.demorgan. Qed.
Print Assumptions demorgan.

(* NOT NOT k is the same parser value as k (the inverse attribute flips twice). *)
Theorem not_not_same_value : forall k, compile (KNot (KNot k)) = compile k.
Proof. exact compile_not_not. Qed.
Print Assumptions not_not_same_value.

(* Substring search with ASCII case folding: the model of
   re.search(re.escape(p), s, re.I | re.A) holds exactly when s = a ++ mid ++ b
   with mid equal to p up to the case of ASCII letters. *)
Theorem substring_ci : forall p s,
  contains_ci p s = true <-> exists a mid b, s = a ++ mid ++ b /\ lower mid = lower p.
Proof. exact contains_ci_spec. Qed.
Print Assumptions substring_ci.

(* Sequence-set membership of the evaluator = RFC 3501's meaning of a set
   (Wire/SeqSet.v), for every number in use. *)
Theorem seqset_membership : forall mx s n,
  (n <= mx)%N -> (set_has mx s n = true <-> denotes mx s n).
Proof. exact set_has_denotes. Qed.
Print Assumptions seqset_membership.

(* SearchKey.requirement asks for enough: a backend that loads the message
   content only when the reduced requirement of the command contains HEADER or
   BODY (maildir) returns what a backend that always loads it (dict) returns. *)
Theorem requirement_sufficient : forall always dis choice uid prog v,
  search_backend always dis choice uid (map compile prog) v =
  search_model dis choice uid (map compile prog) v.
Proof. exact search_backend_irrelevant. Qed.
Print Assumptions requirement_sufficient.

(* The generated tables (Search/KeyTable.v, re-derived from the code on every
   run) carry the RFC grammar: each keyword key is accepted with its argument
   shape and builds the key name the model uses ... *)
Theorem parser_table_has_every_key : forall k w sh, key_word k = Some (w, sh) ->
  find_grow grammar_table w = Some (mk_grow w sh (skey_name (compile k))).
Proof. exact grammar_has_key. Qed.
Print Assumptions parser_table_has_every_key.

(* ... nothing but the RFC keys is accepted, every key name is dispatched, none is
   disabled by default, NOT repeats, a bare set is never a UID set, "()" is refused.
   (crit_of / requirement, hence C13 and requirement_sufficient above, are
   computed from the same generated dispatch table.) *)
Theorem parser_tables_closed :
  grammar_only_rfc = true /\ dispatch_complete = true /\ default_disabled = [] /\
  not_repeats = true /\ bare_set_uid = false /\ keyset_nonempty = true.
Proof. exact tables_closed. Qed.
Print Assumptions parser_tables_closed.
