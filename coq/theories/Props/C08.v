(* Props/C08.v — mailbox names cannot reach outside the user's own mail store.
   Only statements, each closed by [exact] and followed by Print Assumptions. *)
From PV Require Import Base.Prelude Namespace.NsBase Namespace.MdModel Namespace.Paths
     Namespace.PathsProofs.

Theorem C08_refuted_dot_legacy :
  normpath (legacy_get_path LPlus R_U1 [46]%N) = [[114]]%N.
Proof. exact legacy_dot_escapes. Qed.
Print Assumptions C08_refuted_dot_legacy.
