(* Props/C08.v — mailbox names cannot reach outside the user's own mail store.
   Only statements, each closed by [exact] and followed by Print Assumptions.

   [root_str rc] is the user's directory '/c1/c2/...' (clean components),
   [normpath] is posixpath.normpath as a component list, [get_path] the two
   maildir layouts' path construction, [valid_part] the guard of
   layout._valid_part as implemented, [paths_touched] the name-derived
   directories a command makes the backend touch (Paths.anchors). *)
From PV Require Import Base.Prelude Namespace.NsBase Namespace.NsModel Namespace.MdModel
     Namespace.Paths Namespace.PathsProofs.

(* a name accepted by the guard is mapped, by either layout, to a path that
   normalises to the user's directory plus at least one more component *)
Theorem C08_get_path_confined : forall l rc parts,
  rc <> [] -> Forall (fun c => clean c = true) rc ->
  parts <> [] -> Forall (fun p => valid_part l p = true) parts ->
  strictly_inside rc (normpath (get_path l (root_str rc) parts)).
Proof. exact get_path_strictly_inside. Qed.
Print Assumptions C08_get_path_confined.

(* for every command with every name, in every state that any program of
   commands reaches from an empty store, every name-derived directory touched
   lies strictly inside the user's directory (refused names touch nothing) *)
Theorem C08_confined : forall uid0 l rc prog c p, root_ok rc ->
  In p (paths_touched l (root_str rc) (mrun uid0 l md_init prog) c) ->
  strictly_inside rc (normpath p).
Proof. exact confined_all. Qed.
Print Assumptions C08_confined.

(* everything else the backend touches is such a directory extended by
   server-chosen components *)
Theorem C08_inside_extend : forall rc q c, strictly_inside rc q -> strictly_inside rc (q ++ [c]).
Proof. exact inside_extend. Qed.
Print Assumptions C08_inside_extend.

(* DELETE never walks/removes the user's directory itself (nor anything
   outside it): INBOX is refused by do_delete, other names by the guard *)
Theorem C08_delete_not_root : forall l rc n0 p, root_ok rc ->
  In p (delete_target l (root_str rc) n0) -> strictly_inside rc (normpath p).
Proof. exact delete_target_inside. Qed.
Print Assumptions C08_delete_not_root.

Theorem C08_rename_not_root : forall l rc a0 b0 p, root_ok rc ->
  In p (rename_targets l (root_str rc) a0 b0) -> strictly_inside rc (normpath p).
Proof. exact rename_targets_inside. Qed.
Print Assumptions C08_rename_not_root.

(* the hypotheses are satisfiable: the root "/r/u1" *)
Theorem C08_root_example : root_ok RC_U1.
Proof. exact root_ok_u1. Qed.
Print Assumptions C08_root_example.

(* dict backend: the store is a map from identity to MailboxSet; a program of
   one user leaves every other user's entry as it was *)
Theorem C08_dict_isolation : forall uid0 (s : dstore) u v prog, u <> v ->
  alookup v (fold_left (fun s o => dstore_step uid0 s u o) prog s) = alookup v s.
Proof. exact dict_isolation. Qed.
Print Assumptions C08_dict_isolation.

(* the code before the fix (no guard in _split) is refuted by the names ".",
   "/", "" (++ layout) and "../u2" (fs layout) *)
Theorem C08_legacy_refuted :
  exists l n, n <> INBOX /\ ~ strictly_inside RC_U1 (normpath (legacy_get_path l R_U1 n)).
Proof. exact legacy_refuted. Qed.
Print Assumptions C08_legacy_refuted.

Theorem C08_legacy_dot : normpath (legacy_get_path LPlus R_U1 [46]%N) = [[114]]%N.
Proof. exact legacy_dot_escapes. Qed.
Print Assumptions C08_legacy_dot.

Theorem C08_legacy_empty : normpath (legacy_get_path LPlus R_U1 []) = RC_U1.
Proof. exact legacy_empty_is_root. Qed.
Print Assumptions C08_legacy_empty.

Theorem C08_legacy_dotdot_fs :
  normpath (legacy_get_path LFs R_U1 [46;46;47;117;50]%N) = [[114]; [117;50]]%N.
Proof. exact legacy_dotdot_fs. Qed.
Print Assumptions C08_legacy_dotdot_fs.
