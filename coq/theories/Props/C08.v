(* Props/C08.v — mailbox names cannot reach outside the user's own mail store.
   Only statements, each closed by [exact] and followed by Print Assumptions.

   [root_str rc] is the user's directory '/c1/c2/...' (clean components),
   [normpath] is posixpath.normpath as a component list, [get_path] the two
   maildir layouts' path construction, [valid_part] the guard of
   layout._valid_part as implemented, [paths_touched] the name-derived
   directories a command makes the backend touch (Paths.anchors). *)
From PV Require Import Base.Prelude Namespace.NsBase Namespace.NsModel Namespace.MdModel
     Namespace.Paths Namespace.PathsProofs.

(* a name accepted by the guard is mapped, by either layout, to a path that
   normalises to the user's directory plus at least one more component *)
Theorem C08_get_path_confined : forall l rc parts,
  rc <> [] -> Forall (fun c => clean c = true) rc ->
  parts <> [] -> Forall (fun p => valid_part l p = true) parts ->
  strictly_inside rc (normpath (get_path l (root_str rc) parts)).
Proof. exact get_path_strictly_inside. Qed.
Print Assumptions C08_get_path_confined.

(* for every command with every name, in every state that any program of
   commands reaches from an empty store, every name-derived directory touched
   lies strictly inside the user's directory (refused names touch nothing) *)
Theorem C08_confined : forall uid0 l rc prog c p, root_ok rc ->
  In p (paths_touched l (root_str rc) (mrun uid0 l md_init prog) c) ->
  strictly_inside rc (normpath p).
Proof. exact confined_all. Qed.
Print Assumptions C08_confined.

(* everything else the backend touches is such a directory extended by
   server-chosen components *)
Theorem C08_inside_extend : forall rc q c, strictly_inside rc q -> strictly_inside rc (q ++ [c]).
Proof. exact inside_extend. Qed.
Print Assumptions C08_inside_extend.

(* DELETE never walks/removes the user's directory itself (nor anything
   outside it): INBOX is refused by do_delete, other names by the guard *)
Theorem C08_delete_not_root : forall l rc n0 p, root_ok rc ->
  In p (delete_target l (root_str rc) n0) -> strictly_inside rc (normpath p).
Proof. exact delete_target_inside. Qed.
Print Assumptions C08_delete_not_root.

Theorem C08_rename_not_root : forall l rc a0 b0 p, root_ok rc ->
  In p (rename_targets l (root_str rc) a0 b0) -> strictly_inside rc (normpath p).
Proof. exact rename_targets_inside. Qed.
Print Assumptions C08_rename_not_root.

(* the hypotheses are satisfiable: the root "/r/u1" *)
Theorem C08_root_example : root_ok RC_U1.
Proof. exact root_ok_u1. Qed.
Print Assumptions C08_root_example.

(* dict backend: the store is a map from identity to MailboxSet; a program of
   one user leaves every other user's entry as it was *)
Theorem C08_dict_isolation : forall uid0 (s : dstore) u v prog, u <> v ->
  alookup v (fold_left (fun s o => dstore_step uid0 s u o) prog s) = alookup v s.
Proof. exact dict_isolation. Qed.
Print Assumptions C08_dict_isolation.

(* the code before the fix (no guard in _split) is refuted by the names ".",
   "/", "" (++ layout) and "../u2" (fs layout) *)
Theorem C08_legacy_refuted :
  exists l n, n <> INBOX /\ ~ strictly_inside RC_U1 (normpath (legacy_get_path l R_U1 n)).
Proof. exact legacy_refuted. Qed.
Print Assumptions C08_legacy_refuted.

Theorem C08_legacy_dot : normpath (legacy_get_path LPlus R_U1 [46]%N) = [[114]]%N.
Proof. exact legacy_dot_escapes. Qed.
Print Assumptions C08_legacy_dot.

Theorem C08_legacy_empty : normpath (legacy_get_path LPlus R_U1 []) = RC_U1.
Proof. exact legacy_empty_is_root. Qed.
Print Assumptions C08_legacy_empty.

Theorem C08_legacy_dotdot_fs :
  normpath (legacy_get_path LFs R_U1 [46;46;47;117;50]%N) = [[114]; [117;50]]%N.
Proof. exact legacy_dotdot_fs. Qed.
Print Assumptions C08_legacy_dotdot_fs.

(* ---- the tie to the source by translation.  Namespace/LayoutGen.v is
   generated from pymap/backend/maildir/layout.py by
   harness/translate_layout.py on every run; [gen_valid_part], [gen_split],
   [gen_join], [gen_parts_path], [gen_get_path] select the DefaultLayout /
   FilesystemLayout instance of the generated function (LayoutSpec.v),
   [gen_delimiter] is MailboxSet.delimiter. *)
From PV Require Import Namespace.PyStr Namespace.LayoutGen Namespace.LayoutSpec
     Namespace.LayoutGenProofs.

(* the part guard _valid_part of the code, for every string, is the guard
   [valid_part] that C08_get_path_confined / C08_confined (and C11) assume *)
Theorem C08_generated_guard_agrees : forall l part,
  gen_valid_part l part = valid_part l part.
Proof. exact gen_valid_part_agrees. Qed.
Print Assumptions C08_generated_guard_agrees.

(* _split(name, '/') of the code = the model's lsplit followed by the length
   guard (more than 250 UTF-8 bytes -> NotSupportedError); os.fsencode never
   raises here *)
Theorem C08_generated_split_agrees : forall l n,
  gen_split l n gen_delimiter = to_res (lsplit_len l n).
Proof. exact gen_split_agrees. Qed.
Print Assumptions C08_generated_split_agrees.

(* a name the code accepts is accepted by the hand model with the same parts;
   conversely for names of at most 250 UTF-8 bytes *)
Theorem C08_generated_split_refines : forall l n ps,
  gen_split l n gen_delimiter = PRet ps -> lsplit l n = Some ps.
Proof. exact gen_split_refines. Qed.
Print Assumptions C08_generated_split_refines.

Theorem C08_generated_split_complete : forall l n ps,
  (utf8_len n <= 250)%N -> lsplit l n = Some ps -> gen_split l n gen_delimiter = PRet ps.
Proof. exact gen_split_complete. Qed.
Print Assumptions C08_generated_split_complete.

(* _join, _get_subdir, _get_parts, _get_path, get_path of the code are the
   model's functions *)
Theorem C08_generated_join_agrees : forall l parts, gen_join l parts gen_delimiter = ljoin parts.
Proof. exact gen_join_agrees. Qed.
Print Assumptions C08_generated_join_agrees.

Theorem C08_generated_subdir_agrees : forall parts,
  gen_Default__get_subdir parts = get_subdir parts
  /\ gen_Default__get_parts (gen_Default__get_subdir parts) = get_parts (get_subdir parts).
Proof. exact gen_subdir_parts_agree. Qed.
Print Assumptions C08_generated_subdir_agrees.

Theorem C08_generated_paths_agree : forall l root parts,
  gen_parts_path l root parts = get_path l root parts.
Proof. exact gen_parts_path_agrees. Qed.
Print Assumptions C08_generated_paths_agree.

Theorem C08_generated_get_path_agrees : forall l root n,
  gen_get_path l root n gen_delimiter =
  match lsplit_len l n with
  | Some parts => PRet (get_path l root parts)
  | None => PNotSupported
  end.
Proof. exact gen_get_path_agrees. Qed.
Print Assumptions C08_generated_get_path_agrees.

(* confinement stated directly over the generated code: whatever path
   layout.get_path(name, '/') returns for a name other than INBOX normalises
   to the user's directory plus at least one component *)
Theorem C08_generated_get_path_confined : forall l rc n p,
  root_ok rc -> n <> INBOX ->
  gen_get_path l (root_str rc) n gen_delimiter = PRet p ->
  strictly_inside rc (normpath p).
Proof. exact gen_get_path_confined. Qed.
Print Assumptions C08_generated_get_path_confined.

Theorem C08_generated_example :
  gen_get_path LPlus R_U1 [97;47;98]%N gen_delimiter = PRet [47;114;47;117;49;47;46;97;46;98]%N
  /\ gen_get_path LFs R_U1 [97;47;98]%N gen_delimiter = PRet [47;114;47;117;49;47;97;47;98]%N
  /\ gen_get_path LFs R_U1 [46;46;47;117;50]%N gen_delimiter = PNotSupported.
Proof. exact gen_get_path_example. Qed.
Print Assumptions C08_generated_example.

(* the name _join gives back for the parts _split made of a name is that name;
   the parts _get_parts reads back from the directory name _get_subdir made of
   valid parts are those parts (what list_folders relies on) *)
Theorem C08_generated_join_split : forall l n ps,
  n <> INBOX -> gen_split l n gen_delimiter = PRet ps -> gen_join l ps gen_delimiter = n.
Proof. exact gen_join_split. Qed.
Print Assumptions C08_generated_join_split.

Theorem C08_generated_parts_subdir : forall ps,
  ps <> [] -> Forall (fun p => valid_part LPlus p = true) ps ->
  gen_Default__get_parts (gen_Default__get_subdir ps) = ps.
Proof. exact gen_parts_subdir. Qed.
Print Assumptions C08_generated_parts_subdir.

(* ---- the effectful functions.  Namespace/LayoutFxGen.v is generated from
   remove_folder, _can_remove, _add_folder, rename_folder, _rename_folder of
   layout.py by harness/translate_layout_fx.py: the list of everything the
   function can hand to the filesystem (TRead / TMut / TMutTree), for a
   directory listing function [listdir] (any function: os.listdir at any
   moment), with filesystem-dependent conditions taken both ways. *)
From PV Require Import Namespace.PyFs Namespace.LayoutFxGen Namespace.LayoutFxProofs.

(* DELETE's remove_folder: whatever the listings are, every path it can hand to
   the filesystem is inside the user's directory and every mutation strictly
   inside (never the directory itself) *)
Theorem C08_generated_remove_confined : forall l rc listdir n ts,
  root_ok rc -> clean_listing listdir -> n <> INBOX ->
  fx_remove_folder l listdir (root_str rc) n gen_delimiter = PRet ts ->
  Forall (touch_ok rc) ts.
Proof. exact fx_remove_confined. Qed.
Print Assumptions C08_generated_remove_confined.

(* and what it removes is the model's delete target, the subject of C08_delete_not_root *)
Theorem C08_generated_remove_targets : forall l listdir root n ts,
  n <> INBOX -> norm n = n ->
  fx_remove_folder l listdir root n gen_delimiter = PRet ts ->
  forall p, In p (mut_paths ts) -> In p (delete_target l root n).
Proof. exact fx_remove_mutations. Qed.
Print Assumptions C08_generated_remove_targets.

(* RENAME's rename_folder (superiors checked and created by _add_folder, the
   directories renamed by either layout's _rename_folder, '++': one per listed
   directory that is the source or below it) *)
Theorem C08_generated_rename_confined : forall l rc listdir a b ts,
  root_ok rc -> clean_listing listdir -> a <> INBOX -> b <> INBOX ->
  fx_rename_folder l listdir (root_str rc) a b gen_delimiter = PRet ts ->
  Forall (touch_ok rc) ts.
Proof. exact fx_rename_confined. Qed.
Print Assumptions C08_generated_rename_confined.

Theorem C08_generated_fs_rename_targets : forall listdir root a b pa pb,
  a <> INBOX -> norm a = a -> rename_dest b = inl b ->
  lsplit LFs a = Some pa -> lsplit LFs b = Some pb ->
  mut_paths (fx_Fs__rename_folder listdir root pa pb) = rename_targets LFs root a b.
Proof. exact fx_fs_rename_targets. Qed.
Print Assumptions C08_generated_fs_rename_targets.

(* CREATE's _add_folder *)
Theorem C08_generated_add_confined : forall l rc listdir parts,
  root_ok rc -> parts <> [] /\ Forall (fun p => valid_part l p = true) parts ->
  Forall (touch_ok rc) (fx_add_folder l listdir (root_str rc) parts).
Proof. exact add_folder_ok. Qed.
Print Assumptions C08_generated_add_confined.
