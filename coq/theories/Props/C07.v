(* Props/C07.v — Every response is well-formed IMAP.
   Only statements, each closed by [exact] and followed by Print Assumptions.
   Models: Resp/Printer.v (what pymap serialises; tied to /repo by
   harness/props/C07.py on every run), Resp/Grammar.v (an independent
   recogniser of RFC 3501 section 9 responses with the advertised extensions,
   cross-checked against harness/imap_grammar.py on every run), Resp/Wf.v (what
   pymap's own types and parsers guarantee about a response object; nothing in
   it restricts a client-influenced string or structure). *)
From PV Require Import Base.Prelude Base.Decimal Resp.Grammar Resp.Printer Resp.Wf
  Resp.LexProofs Resp.ListProofs Resp.BodyProofs Resp.RespProofs Resp.Examples Resp.C07Proofs
  Resp.Producer Resp.ProducerProofs Resp.StoreBridge.

(* C07.  Whatever sequence of response objects a connection writes -- with
   arbitrary mailbox names (any code points), flags and keywords, header-derived
   strings, MIME parameter names and values, address parts, literal payloads and
   body structures nested to any depth -- the bytes on the wire are a sequence
   of complete tagged / untagged / continuation responses, each ending in CRLF:
   the independent recogniser accepts the whole stream. *)
Theorem C07 : forall rs : list resp,
  forallb wf_resp rs = true -> wf_response (print_stream rs) = true.
Proof. exact stream_wf. Qed.
Print Assumptions C07.

(* one response: the recogniser consumes exactly its bytes, up to and including
   its CRLF, and leaves whatever follows untouched *)
Theorem C07_one_response : forall r fuel rest,
  wf_resp r = true -> fits (print_resp r ++ rest) fuel ->
  response fuel (print_resp r ++ rest) = Some rest.
Proof. exact response_print. Qed.
Print Assumptions C07_one_response.

(* BODY / BODYSTRUCTURE of any shape and nesting depth, with arbitrary strings
   in every field, is a well-formed [body] *)
Theorem C07_body_any_depth : forall b ext fuel rest,
  wf_body b = true -> fits (print_body ext b ++ rest) fuel ->
  Grammar.body fuel (print_body ext b ++ rest) = Some rest.
Proof. exact body_print. Qed.
Print Assumptions C07_body_any_depth.

(* quoted_safe: when String.build chooses the quoted form (for a str, or for
   7-bit bytes) the value has no CR, LF, NUL or 8-bit byte, and its printed
   form -- dquote and backslash escaped -- is a well-formed quoted string *)
Theorem quoted_safe : forall v q rest,
  seven_bit v = true -> build v = OQuoted q ->
  forallb is_text_char q = true /\ quoted (print_quoted q ++ rest) = Some rest.
Proof. exact quoted_safe_lemma. Qed.
Print Assumptions quoted_safe.

(* every string-valued field is a well-formed nstring whatever it contains *)
Theorem C07_any_str_is_nstring : forall (s : list N) rest,
  nstring (pstr (VStr s) ++ rest) = Some rest.
Proof. exact nstring_pstr_str. Qed.
Print Assumptions C07_any_str_is_nstring.

(* literal_len: the announced length of a literal ({n} / ~{n}) is the number of
   payload bytes that follow, for any payload: the recogniser resumes exactly
   after it *)
Theorem literal_len : forall b rest,
  literal (print_literal b false ++ rest) = Some rest /\
  literal8 (print_literal b true ++ rest) = Some rest.
Proof. exact literal_len_lemma. Qed.
Print Assumptions literal_len.

(* list_balanced: List.__bytes__ of items that are each accepted (when followed
   by SP or the closing parenthesis) is a balanced parenthesised list *)
Theorem list_balanced : forall item (ok : bytes -> Prop) ys fuel rest,
  Forall (fun y => forall r, ok r -> item (y ++ r) = Some r) ys ->
  Forall (starts_not 41) ys ->
  (forall r, ok (32 :: r)%N) -> ok (41 :: rest)%N ->
  (List.length (py_list ys ++ rest) < fuel)%nat ->
  plist fuel item (py_list ys ++ rest) = Some rest.
Proof. exact plist_py. Qed.
Print Assumptions list_balanced.

(* mailbox_bytes_astring: bytes(Mailbox(name)) is an astring for every name:
   modutf7_encode yields printable ASCII only, AString quotes what is not an
   atom and escapes dquote and backslash *)
Theorem mailbox_bytes_astring : forall (name : list N) rest,
  nohead is_astring_char rest -> mailbox (print_mailbox name ++ rest) = Some rest.
Proof. exact mailbox_print. Qed.
Print Assumptions mailbox_bytes_astring.

Theorem C07_modutf7_printable : forall s : list N,
  forallb printable (modutf7_encode s) = true.
Proof. exact modutf7_encode_printable. Qed.
Print Assumptions C07_modutf7_printable.

(* the hypotheses are satisfiable by a stream with hostile data in every
   position *)
Theorem C07_hypotheses_satisfiable :
  forallb wf_resp ex_stream = true /\ wf_response (print_stream ex_stream) = true.
Proof. exact examples_ok. Qed.
Print Assumptions C07_hypotheses_satisfiable.

(* what the unchanged tree wrote (DESIGN section 6 rows 10 and 26 and the other
   defects found by this check; all fixed in /repo) is rejected *)
Theorem C07_defect_witnesses_rejected :
  forallb (fun b => negb (wf_response b)) bad_examples = true.
Proof. exact bad_examples_rejected. Qed.
Print Assumptions C07_defect_witnesses_rejected.

(* row 26: the non-empty-text hypothesis is necessary *)
Theorem C07_empty_text_refuted :
  exists r, wf_resp r = false /\ wf_response (print_resp r) = false /\
            print_resp r = bad_empty_text.
Proof. exact empty_text_refuted. Qed.
Print Assumptions C07_empty_text_refuted.

(* ============ the hypothesis [wf_resp], proved for producers of responses ============ *)
(* Resp/Producer.v models what builds the response objects (Tag.parse,
   Flag.parse, InvalidCommand.message, check_command, do_select, do_status,
   do_list, do_capability, do_id, MailboxData.snapshot, random object ids,
   new_uid_validity, ListEntry.attributes).  For these commands C07 needs no
   measured hypothesis: for every byte string the client sends as its tag and
   every content of the mailbox, the bytes written are a well-formed stream. *)
Theorem C07_tag_of_any_client_input : forall buf tag rest,
  parse_tag buf = Some (tag, rest) -> wf_tag tag = true.
Proof. exact parse_tag_wf. Qed.
Print Assumptions C07_tag_of_any_client_input.

Theorem C07_flag_of_any_client_input : forall buf f rest,
  parse_flag buf = Some (f, rest) -> wf_flag f = true.
Proof. exact parse_flag_wf. Qed.
Print Assumptions C07_flag_of_any_client_input.

Theorem C07_select : forall line tag rest sn,
  parse_tag line = Some (tag, rest) ->
  wf_response (print_stream (do_select tag sn)) = true.
Proof. exact select_stream_wf. Qed.
Print Assumptions C07_select.

Theorem C07_status : forall line tag rest name req sn,
  parse_tag line = Some (tag, rest) ->
  wf_response (print_stream (do_status tag name req sn)) = true.
Proof. exact status_stream_wf. Qed.
Print Assumptions C07_status.

Theorem C07_list : forall line tag rest lsub entries,
  parse_tag line = Some (tag, rest) ->
  wf_response (print_stream (do_list tag lsub entries)) = true.
Proof. exact list_stream_wf. Qed.
Print Assumptions C07_list.

(* BAD for an unknown or malformed command echoes words the client chose *)
Theorem C07_invalid_command : forall line words known,
  Forall (fun w => exists b r, parse_atom b = Some (w, r)) words ->
  wf_response (print_stream
    [invalid_command (option_map fst (parse_tag line)) words known]) = true.
Proof. exact invalid_stream_wf. Qed.
Print Assumptions C07_invalid_command.

Theorem C07_status_lines_wf : forall tag c cd k,
  wf_tag tag = true -> In c COMMANDS -> opt_all wf_code cd = true ->
  wf_resp (completed tag c cd) = true /\ wf_resp (refuse tag c k) = true.
Proof. exact status_lines_wf. Qed.
Print Assumptions C07_status_lines_wf.

(* Composition with the message-store model of C01/C02 (Store/System.v): in
   every state reachable by any number of sessions running any commands in any
   interleaving, the EXPUNGE / EXISTS / RECENT / FETCH (FLAGS [UID]) / SEARCH
   responses a step produces, rendered as response objects (keyword names: any
   table of atoms), satisfy wf_resp -- sequence numbers and UIDs are non-zero
   by the store invariant and its shadow-client theorem -- so their
   serialisation is a well-formed stream. *)
Theorem C07_store_message_data : forall kw ls l s,
  (forall n, wf_atom (kw n) = true) ->
  let sy := System.exec System.sys_empty ls in
  System.label_actor l = Some s -> System.view_of (fst (System.step sy l)) s <> None ->
  wf_response (print_stream (render_all kw (snd (System.step sy l)))) = true.
Proof. exact store_step_stream_wf. Qed.
Print Assumptions C07_store_message_data.

(* ============ the hypothesis [wf_resp], proved for the FETCH content items ============ *)
(* Resp/FetchProducer.v models what builds the fetch values of a message:
   pymap/fetch.py (MessageAttributes._get, every fetch value class, _get_data,
   _get_partial), pymap/message.py (_get_body_structure, _get_envelope_structure,
   get_size, get_body(binary=True)), the Content-Type decision of
   pymap/mime/__init__.py (MessageBody._parse, _get_boundary) and the envelope /
   address-list rules of parsing/response/fetch.py, on top of C03's model of the
   line index and the part tree (Mime/).  [d] is the message literal (any
   bytes); [hd] is what the stdlib email package decided for the header lines of
   each part (content type with parameters, disposition, id, description,
   encoding, language, location, date, subject, address headers, ...): arbitrary
   data, of which only [hd_ok] is assumed -- maintype / subtype are results of
   str.lower() and a parsed Date is a datetime.datetime; [dec] is the decoded
   body of a part (base64 / quoted-printable), arbitrary. *)
From PV Require Mime.Lines Mime.Parts.
From PV Require Import Resp.FetchProducer Resp.FetchProducerProofs.

(* BODY / BODYSTRUCTURE: for every literal, whatever nesting the parse finds,
   _get_body_structure raises nothing (message/rfc822 always has its nested
   message) and builds a structure that satisfies the hypotheses of C07 *)
Theorem C07_bodystructure_producer : forall d hd,
  (forall hl, hd_ok (hd hl) = true) -> forall c,
  Parts.parse d (ct hd) = Ok c ->
  exists b, body_of_content d hd c = Ok b /\ wf_body b = true.
Proof. exact bodystructure_producer. Qed.
Print Assumptions C07_bodystructure_producer.

(* ENVELOPE (of the message and of every nested message) *)
Theorem C07_envelope_producer : forall hd,
  (forall hl, hd_ok (hd hl) = true) -> forall hl, wf_envelope (envelope_of (hdx hd hl)) = true.
Proof. exact envelope_producer. Qed.
Print Assumptions C07_envelope_producer.

(* the whole FETCH response: every message, every list of attributes that
   FetchAttribute.parse builds ([wf_fattr]: known specifier, MIME after part
   numbers, non-empty HEADER.FIELDS list, BINARY without specifier), sequence
   number and UID non-zero, flags / object ids as their parsers build them:
   the response object exists (no exception), satisfies [wf_resp], and its bytes
   are a well-formed response *)
Theorem C07_fetch_content : forall d hd dec seq m attrs,
  (forall hl, hd_ok (hd hl) = true) ->
  pos seq = true -> wf_meta m = true -> attrs <> [] -> forallb wf_fattr attrs = true ->
  exists r, fetch_response d hd dec seq m attrs = Ok r /\ wf_resp r = true /\
            wf_response (print_stream [r]) = true.
Proof. exact fetch_content_lemma. Qed.
Print Assumptions C07_fetch_content.

(* the hypotheses are satisfiable: a multipart message with a text part and a
   message/rfc822 part, six attributes; the model's response, its bytes *)
Theorem C07_fetch_content_example :
  (forall hl, hd_ok (ex_hd hl) = true) /\ wf_meta ex_meta = true /\
  forallb wf_fattr ex_attrs = true /\
  option_map print_resp ex_result = Some ex_expected /\
  option_map wf_resp ex_result = Some true /\ wf_response ex_expected = true.
Proof. exact fetch_example. Qed.
Print Assumptions C07_fetch_content_example.

(* [hd_ok] cannot be dropped: a maintype "TEXT" (not lower-cased) would make
   _get_body_structure build a ContentBodyStructure whose bytes lack the line
   count the grammar demands after "TEXT" *)
Theorem C07_lowered_needed :
  exists d r, hd_ok (up_hd []) = false /\
    fetch_response d up_hd (fun _ => None) 1 ex_meta [ABody] = Ok r /\
    wf_resp r = false /\ wf_response (print_stream [r]) = false.
Proof. exact lowered_needed. Qed.
Print Assumptions C07_lowered_needed.

(* ============ flags of the maildir backend (dovecot-keywords) ============ *)
(* Resp/Keywords.v models MaildirFlags.read / from_maildir / permanent_flags and
   Flag().  Whatever the dovecot-keywords file of a folder contains (the lines
   as str.split() cuts them: any index, any keyword) and whatever letters the
   file name of a message carries: if the file is accepted at all, the flags the
   backend hands to the producers are flags of the RFC, so that the FLAGS and
   PERMANENTFLAGS responses of SELECT / EXAMINE and the FETCH FLAGS item satisfy
   [wf_resp] (and print to well-formed bytes by C07). *)
From PV Require Import Resp.Keywords Resp.KeywordsProofs.
Theorem C07_maildir_keywords : forall ls t codes seq,
  read_kws ls [] = Some t -> pos seq = true ->
  let perm := permanent_flags (read_names ls) in
  forallb wf_flag perm = true /\
  forallb wf_flag (from_maildir t codes) = true /\
  wf_resp (RFlags (perm ++ [RECENT_FLAG])) = true /\
  wf_resp (RCond None OK (Some (CPermanentFlags perm)) FLAGS_PERMITTED) = true /\
  wf_resp (RFetch seq [FFlags (from_maildir t codes)]) = true.
Proof. exact maildir_keywords_wf. Qed.
Print Assumptions C07_maildir_keywords.

(* the reader must refuse keywords that are not atoms: "kw(x" (accepted before
   the fix 6252117) is no flag and FLAGS (kw(x) is not a well-formed response *)
Theorem C07_non_atom_keyword_rejected :
  read_kw 1 KW_BAD = KwSkip /\ wf_flag KW_BAD = false /\
  wf_response (print_resp (RFlags [KW_BAD])) = false.
Proof. exact non_atom_keyword_rejected. Qed.
Print Assumptions C07_non_atom_keyword_rejected.
