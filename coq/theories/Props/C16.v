(* Props/C16.v -- IDLE delivers every change without further stimulus.
   Only statements, each closed by [exact] and followed by Print Assumptions.

   Model: Sync/Idle.v.  [iexec true (iinit k) sched0]: any state reached by k
   idling sessions under ANY interleaving [sched0] of writer commands [LW],
   idler steps [LI s n] and client lines [LDone s ok]; [true] = the update
   loop of the current tree (update_selected re-checks mod_sequence before
   waiting), [false] = the loop before the fix commit. *)
From PV Require Import Base.Prelude Sync.RWLock Sync.Idle Sync.IdleProofs.

(* progress: in any reachable state, for any idling session s, every schedule
   that contains no further writer step and no client input for s -- only
   steps of the idlers, in any order -- has delivered every change to s once
   it contains 4 steps of s itself.  (A fair scheduler gives s those steps:
   see C16_never_stuck.) *)
Theorem C16_progress : forall k sched0 s sched,
  let st := iexec true (iinit k) sched0 in
  idling st s -> forallb (quiet_for s) sched = true -> 4 <= own_steps s sched ->
  delivered_all (iexec true st sched) s.
Proof. exact progress_thm. Qed.
Print Assumptions C16_progress.

(* no lost wake-up: an idling session with an undelivered change always has a
   ready handle (it is never parked in its wait) *)
Theorem C16_never_stuck : forall k sched0 s i,
  let st := iexec true (iinit k) sched0 in
  nth_error (idlers st) s = Some i -> idone i = None -> delivered i <> hi st ->
  ienabled i = true.
Proof. exact never_stuck_thm. Qed.
Print Assumptions C16_never_stuck.

(* DONE ends IDLE with the tagged OK: once the line is read, 4 steps of s
   later -- whatever writers and other sessions do meanwhile -- s has written
   OK.  ([ipc_ i <> ICont]: the reader of the line exists only after the
   continuation "+ Idling." has been flushed; until then the line waits in the
   buffer.) *)
Theorem idle_done_ok : forall k sched0 s sched,
  let st := iexec true (iinit k) sched0 in
  (exists i, nth_error (idlers st) s = Some i /\ idone i = None /\ ipc_ i <> ICont) ->
  4 <= own_steps s sched ->
  ended (iexec true (istep true st (LDone s true)) sched) s true.
Proof. intros k sched0 s sched. exact (done_thm k sched0 s true sched). Qed.
Print Assumptions idle_done_ok.

(* any other line ends IDLE with the tagged BAD *)
Theorem idle_other_bad : forall k sched0 s sched,
  let st := iexec true (iinit k) sched0 in
  (exists i, nth_error (idlers st) s = Some i /\ idone i = None /\ ipc_ i <> ICont) ->
  4 <= own_steps s sched ->
  ended (iexec true (istep true st (LDone s false)) sched) s false.
Proof. intros k sched0 s sched. exact (done_thm k sched0 s false sched). Qed.
Print Assumptions idle_other_bad.

(* the update loop before the fix: a change that lands while the idler is
   inside drain() leaves it asleep in its wait with the change pending *)
Theorem C16_refuted_lost_wakeup :
  exists sched st i,
    st = iexec false (iinit 1) sched /\ nth_error (idlers st) 0 = Some i /\ idone i = None /\
    delivered i < hi st /\ ienabled i = false.
Proof. exact lost_wakeup. Qed.
Print Assumptions C16_refuted_lost_wakeup.

(* ------------------------------------------------------------------------
   maildir: IDLE is a poll loop (Sync/MaildirIdle.v): update_selected waits on
   the `done` event with a timeout of one period (P ticks of a virtual clock)
   and rescans.  Labels: MChange (another session changes the mailbox -- no
   notification of any kind exists in the model), MTick (time passes; only
   while the idler has nothing to run), MI (one step of the idler), MDone ok
   (the client's line was read), MWake (the wait returns early). *)
From PV Require Import Sync.MaildirIdle Sync.MaildirIdleProofs.

(* in any reachable state with IDLE not being ended: every schedule without
   further change and without client input that contains P + 6 ticks or idler
   steps ends with every change completely written to the idler.  No wake-up
   is needed (so a lost set() cannot matter), spurious ones do no harm. *)
Theorem C16_maildir_poll_progress : forall P sched0 st sched st',
  mexec P minit sched0 = Some st -> mdone st = None ->
  forallb is_quiet sched = true -> mexec P st sched = Some st' ->
  P + 6 <= work sched -> mdeliv st' = mhi st'.
Proof. exact poll_progress. Qed.
Print Assumptions C16_maildir_poll_progress.

(* ... and within one poll period of virtual time: as long as something is
   unreported, at most P ticks have passed since the state was reached *)
Theorem C16_maildir_poll_period : forall P sched0 st sched st',
  mexec P minit sched0 = Some st -> mdone st = None ->
  forallb is_quiet sched = true -> mexec P st sched = Some st' ->
  mdeliv st' <> mhi st' -> mticks sched <= P.
Proof. exact poll_period. Qed.
Print Assumptions C16_maildir_poll_period.

(* the client's line read while the update loop exists: after at most 4 idler
   steps -- which are always possible, no tick is needed -- IDLE has ended,
   with OK iff the line was DONE, whatever else happens meanwhile *)
Theorem C16_maildir_done_ok : forall P sched0 st ok st1 sched st',
  mexec P minit sched0 = Some st -> mp st <> MCont -> mdone st = None ->
  (forall b, mp st <> MEnd b) ->
  mstep P st (MDone ok) = Some st1 -> mexec P st1 sched = Some st' ->
  (4 <= isteps sched -> mp st' = MEnd ok) /\
  (mp st' <> MEnd ok -> ienabled st' = true).
Proof. exact done_ends. Qed.
Print Assumptions C16_maildir_done_ok.

(* nothing is reported twice and nothing skipped: the non-empty batches
   written so far are adjacent intervals of changes ending at [mdeliv] *)
Theorem C16_maildir_no_duplicates : forall P sched st,
  mexec P minit sched = Some st -> chained (mout st) (mdeliv st) /\ mdeliv st <= mhi st.
Proof. exact no_duplicates. Qed.
Print Assumptions C16_maildir_no_duplicates.

(* _AsyncioEvent.or_event: the new event is not set (even when a constituent
   already is -- why the dict backend re-checks before waiting) and leaves the
   others alone; set() of either constituent afterwards sets it; clear() of an
   event touches no other event *)
Theorem C16_or_event_spec : forall s a b,
  length (elisten s) = length (eflag s) -> a < length (eflag s) -> b < length (eflag s) ->
  let '(s1, o) := ev_or s [a; b] in
  ev_is_set s1 o = false /\
  (forall e, e < length (eflag s) -> ev_is_set s1 e = ev_is_set s e) /\
  ev_is_set (ev_set s1 a) o = true /\ ev_is_set (ev_set s1 b) o = true /\
  (forall e, e <> o -> ev_is_set (ev_clear s1 o) e = ev_is_set s1 e).
Proof. exact or_event_spec. Qed.
Print Assumptions C16_or_event_spec.
