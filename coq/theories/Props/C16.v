(* Props/C16.v -- IDLE delivers every change without further stimulus.
   Only statements, each closed by [exact] and followed by Print Assumptions.

   Model: Sync/Idle.v.  [iexec true (iinit k) sched0]: any state reached by k
   idling sessions under ANY interleaving [sched0] of writer commands [LW],
   idler steps [LI s n] and client lines [LDone s ok]; [true] = the update
   loop of the current tree (update_selected re-checks mod_sequence before
   waiting), [false] = the loop before the fix commit. *)
From PV Require Import Base.Prelude Sync.RWLock Sync.Idle Sync.IdleProofs.

(* progress: in any reachable state, for any idling session s, every schedule
   that contains no further writer step and no client input for s -- only
   steps of the idlers, in any order -- has delivered every change to s once
   it contains 4 steps of s itself.  (A fair scheduler gives s those steps:
   see C16_never_stuck.) *)
Theorem C16_progress : forall k sched0 s sched,
  let st := iexec true (iinit k) sched0 in
  idling st s -> forallb (quiet_for s) sched = true -> 4 <= own_steps s sched ->
  delivered_all (iexec true st sched) s.
Proof. exact progress_thm. Qed.
Print Assumptions C16_progress.

(* no lost wake-up: an idling session with an undelivered change always has a
   ready handle (it is never parked in its wait) *)
Theorem C16_never_stuck : forall k sched0 s i,
  let st := iexec true (iinit k) sched0 in
  nth_error (idlers st) s = Some i -> idone i = None -> delivered i <> hi st ->
  ienabled i = true.
Proof. exact never_stuck_thm. Qed.
Print Assumptions C16_never_stuck.

(* DONE ends IDLE with the tagged OK: once the line is read, 4 steps of s
   later -- whatever writers and other sessions do meanwhile -- s has written
   OK.  ([ipc_ i <> ICont]: the reader of the line exists only after the
   continuation "+ Idling." has been flushed; until then the line waits in the
   buffer.) *)
Theorem idle_done_ok : forall k sched0 s sched,
  let st := iexec true (iinit k) sched0 in
  (exists i, nth_error (idlers st) s = Some i /\ idone i = None /\ ipc_ i <> ICont) ->
  4 <= own_steps s sched ->
  ended (iexec true (istep true st (LDone s true)) sched) s true.
Proof. intros k sched0 s sched. exact (done_thm k sched0 s true sched). Qed.
Print Assumptions idle_done_ok.

(* any other line ends IDLE with the tagged BAD *)
Theorem idle_other_bad : forall k sched0 s sched,
  let st := iexec true (iinit k) sched0 in
  (exists i, nth_error (idlers st) s = Some i /\ idone i = None /\ ipc_ i <> ICont) ->
  4 <= own_steps s sched ->
  ended (iexec true (istep true st (LDone s false)) sched) s false.
Proof. intros k sched0 s sched. exact (done_thm k sched0 s false sched). Qed.
Print Assumptions idle_other_bad.

(* the update loop before the fix: a change that lands while the idler is
   inside drain() leaves it asleep in its wait with the change pending *)
Theorem C16_refuted_lost_wakeup :
  exists sched st i,
    st = iexec false (iinit 1) sched /\ nth_error (idlers st) 0 = Some i /\ idone i = None /\
    delivered i < hi st /\ ienabled i = false.
Proof. exact lost_wakeup. Qed.
Print Assumptions C16_refuted_lost_wakeup.
