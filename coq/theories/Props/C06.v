(* Props/C06.v — Every input is answered: no hang, no internal error, no
   silent drop.  Statements only; proofs in Cmd/*Proofs.v.

   The model (Cmd/Grammar.v, Cmd/Commands.v) transcribes pymap's command
   parser with an explicit exception channel: a parser returns a value,
   NotParseable, a ParsingInterrupt (continuation wanted), another exception
   (PExc: ValueError family, RecursionError), or "out of fuel".  Python's
   while-loops are [loop F step] with F = 1 + the number of bytes readable
   (line and continuations); "never out of fuel" is the statement that no loop
   of the parser spins on any input. *)
From PV Require Import Base.Prelude Cmd.CLex Cmd.Parser Cmd.ParserProofs Cmd.Utf7Ok
     Cmd.Grammar Cmd.GrammarProofs Cmd.Commands Cmd.CommandsProofs Cmd.SuffixProofs
     Cmd.JustProofs Cmd.Framing Cmd.FramingProofs.
From PV Require Import Sync.WorkerPool Sync.WorkerPoolProofs Sync.WorkerPoolCheck.

(* Commands.parse, for every line, every list of continuation data, every
   configuration (max_append_len, recursion budget) and every behaviour of the
   standard-library oracles: the result is a command, an InvalidCommand
   (tagged BAD) or a continuation request — never an escaped exception, never
   a loop that does not end. *)
Theorem C06_parse_total : forall o cfg line conts,
  oracle_total o ->
  match parse_command o cfg line conts with
  | OCmd _ _ _ | OInvalid _ _ | OInterrupt _ => True
  | OExc _ | OFuel | OUnk => False
  end.
Proof. exact parse_command_total. Qed.
Print Assumptions C06_parse_total.

(* The same for every argument parser on its own, as a statement about the
   measure: started with fewer than F readable bytes it does not run out of
   fuel, and it never gives back more than it was given. *)
Theorem C06_args_parsers_good : forall o F d pr k,
  oracle_total o -> gd F (fun _ => false) (p_args o F d pr k).
Proof. intros o F d pr k Ho. exact (p_args_wgd o Ho F d pr k). Qed.
Print Assumptions C06_args_parsers_good.

(* The guard added to Commands.parse (fix 0e1b5fb) is what makes
   C06_parse_total true: the argument parsers do raise ValueError /
   RecursionError. *)
Theorem C06_guard_needed_value_error :
  exists line, p_args (fun _ _ => 0%N) 100 10
                 {| pa_append := false; pa_max_append := None; pa_allow_cont := true;
                    pa_uid := false; pa_charset := None |} KSearch [] line = PExc XValue.
Proof. exact args_raise_value_error. Qed.
Print Assumptions C06_guard_needed_value_error.

Theorem C06_guard_needed_recursion_error :
  exists line, p_args (fun _ _ => 0%N) 100 2
                 {| pa_append := false; pa_max_append := None; pa_allow_cont := true;
                    pa_uid := false; pa_charset := None |} KSearch [] line = PExc XRecursion.
Proof. exact args_raise_recursion_error. Qed.
Print Assumptions C06_guard_needed_recursion_error.

(* The re-parse loop of read_command runs at most 1 + (number of synchronizing
   literals in the line and its continuations) times: the number of
   continuation requests [asked] is at most [nsync], the number of buffers
   (line, continuations) that end with a synchronizing literal header; the
   loop ends with a command object, or is waiting for the continuation it
   asked for; it never ends on an interrupt and never runs out of iterations.
   Needs fix C06-F10 (a literal reached again after backtracking keeps its
   continuation): on the tree before it `a SEARCH RETURN (OR (SUBJECT {1}`
   drew two requests for one literal. *)
Theorem C06_reparse_terminates : forall o cfg line supplied,
  match read_command (S (length supplied)) o cfg line supplied 0 with
  | RCDone out asked =>
    asked <= nsync (line :: supplied) /\ asked <= length supplied /\
    match out with OInterrupt _ => False | _ => True end
  | RCWaiting asked _ => asked <= nsync (line :: supplied) /\ asked = S (length supplied)
  | RCFuel => False
  end.
Proof. exact read_command_full_bound. Qed.
Print Assumptions C06_reparse_terminates.

(* when the parser interrupts, every buffer it was given ends with a
   synchronizing literal: the chain of literals is unbroken *)
Theorem C06_interrupt_chain : forall o cfg line conts n,
  parse_command o cfg line conts = OInterrupt n ->
  Forall (fun B => sync_end B = true) (line :: conts).
Proof. exact interrupt_all_sync_end. Qed.
Print Assumptions C06_interrupt_chain.

(* A continuation request is never spurious: when Commands.parse interrupts
   for n literal bytes, the line or one of the continuations received so far
   ends with a synchronizing literal header "{n}" CRLF (optionally "~{n}",
   never the non-synchronizing "{n+}"). *)
Theorem C06_continuation_justified : forall o cfg line conts n,
  parse_command o cfg line conts = OInterrupt n ->
  exists B, In B (line :: conts) /\
    exists s, sfx s B /\
      exists bin ds, lex_literal_hdr s = Some ((bin, ds, false), []) /\ digits_value ds = n.
Proof. exact interrupt_justified. Qed.
Print Assumptions C06_continuation_justified.

(* _run_state: in every connection state, with any count of previous BADs,
   for every line and continuation data, if the command bodies keep their
   contract (return a response, or raise ResponseError / AuthenticationError /
   TimeoutError), the responses contain a tagged completion carrying the
   line's tag ("*" when the line has none) or consist of the continuation
   requests the server is waiting on; there is no [SERVERBUG] BYE, no
   truncated response, and no close without BYE. *)
Theorem C06_answered : forall o cfg st bad exec line supplied,
  oracle_total o -> exec_ok exec ->
  answered (line_tag line) (fst (respond o cfg st bad exec line supplied)).
Proof. exact respond_answered. Qed.
Print Assumptions C06_answered.

(* The contract is necessary.  A body raising anything else is answered with
   the internal-error BYE ... *)
Theorem C06_answered_refuted_backend_exception :
  exists o cfg st bad exec line supplied,
    oracle_total o /\
    existsb is_serverbug (fst (respond o cfg st bad exec line supplied)) = true.
Proof. exact respond_unanswered_other. Qed.
Print Assumptions C06_answered_refuted_backend_exception.

(* ... and so is a response whose production raises something else than a
   ResponseError.  (FETCH BINARY of an undecodable part, finding C06-F9, used
   to be such a case and closed the connection silently; since f39c4ca it
   raises UnknownCTE, a ResponseError, and is answered NO [UNKNOWN-CTE] —
   inside the contract.) *)
Theorem C06_answered_refuted_write_failure :
  exists o cfg st bad exec line supplied,
    oracle_total o /\
    let rs := fst (respond o cfg st bad exec line supplied) in
    existsb is_serverbug rs = true /\
    ~ (exists r, In r rs /\ tagged_with (line_tag line) r).
Proof. exact respond_unanswered_write_failure. Qed.
Print Assumptions C06_answered_refuted_write_failure.

(* Framing (IMAPConnection.readline / read_continuation, ManageSieve
   _read_data): the buffer handed to the parser is a non-empty prefix of the
   client's stream — bytes are never invented, dropped or reordered, every
   read advances — for every stream, every literal length asked for. *)
Theorem C06_framing_prefix : forall need stream unit rest,
  read_unit need stream = Some (unit, rest) -> stream = unit ++ rest /\ unit <> [].
Proof. exact read_unit_prefix. Qed.
Print Assumptions C06_framing_prefix.

(* ManageSieve: Command.parse yields a command or the "Bad command" answer,
   for every line and every behaviour of the UTF-8 decoder. *)
Theorem C06_sieve_parse_total : forall utf8_ok line,
  match sieve_parse utf8_ok line with SOk _ | SBad => True | _ => False end.
Proof. exact sieve_parse_total. Qed.
Print Assumptions C06_sieve_parse_total.

(* "Never stops serving other connections" on the threading subsystem (the
   maildir backend: ThreadPoolExecutor(--concurrency), every backend call of
   every connection occupies one of N workers from start to return, FIFO work
   queue; Sync/WorkerPool.v).  [ahead] = the calls submitted before a request
   and not yet returned, [Some d] = returns d ticks from now, [None] = never
   (waits for something only its own client supplies).  The request gets a
   worker after finitely many ticks iff fewer than N of the calls ahead hold
   their worker for ever. *)
Theorem C06_pool_started_iff : forall N ahead,
  (exists t, started_within N t ahead = true) <-> count_inf ahead < N.
Proof. exact started_iff. Qed.
Print Assumptions C06_pool_started_iff.

(* quantitative: the wait is at most the finite service time ahead *)
Theorem C06_pool_wait_le_work : forall N ahead,
  count_inf ahead < N -> started_within N (work ahead) ahead = true.
Proof. intros N ahead H. apply started_by_work; [apply le_n|exact H]. Qed.
Print Assumptions C06_pool_wait_le_work.

(* N calls that never return (N connections idling with a wait that only DONE
   ends) and nobody else is ever served *)
Theorem C06_pool_pinned_never : forall N ahead t,
  N <= count_inf ahead -> started_within N t ahead = false.
Proof. intros N ahead t H. apply pinned_never. exact H. Qed.
Print Assumptions C06_pool_pinned_never.

(* every call ahead returns within a period of P+1 ticks -- what the 1 s
   timeout of the idle poll provides, and what the case checker [chk_pool]
   tests on every observed call --: served within (calls ahead) * (P+1) ticks,
   whatever the number of idling connections and workers (>= 1) *)
Theorem C06_pool_bounded_wait : forall N P ahead,
  0 < N -> forallb (bounded_by P) ahead = true ->
  started_within N (length ahead * S P) ahead = true.
Proof. exact started_when_bounded. Qed.
Print Assumptions C06_pool_bounded_wait.

(* the start time the checker compares with the observed one is the first
   tick with a free worker *)
Theorem C06_pool_start_tick_sound : forall N fuel ahead t,
  start_tick N fuel 0 ahead = Some t -> t <= fuel /\ started_within N t ahead = true.
Proof.
  intros N fuel ahead t H. apply start_tick_some in H as (_ & H2 & H3).
  rewrite Nat.sub_0_r in *. split; assumption.
Qed.
Print Assumptions C06_pool_start_tick_sound.

(* one worker: behind an idle poll with 99 ticks to go the request starts at
   tick 100; behind a wait without timeout it never does; two workers, one
   pinned: the queue drains through the other one *)
Example C06_pool_example :
  start_tick 1 2000 0 [Some 99] = Some 100 /\ start_tick 1 2000 0 [None] = None /\
  start_tick 2 2000 0 [None; Some 49; Some 99] = Some 150.
Proof. repeat split; vm_compute; reflexivity. Qed.

(* the hypotheses are satisfiable: a total oracle and a contract-keeping
   backend exist, and the theorem says something about a real line *)
Example C06_example :
  let o : oracle := fun _ _ => 1%N in
  let exec : ckind -> exec_result := fun _ => EReturn OK in
  oracle_total o /\ exec_ok exec /\
  fst (respond o {| c_max_append := None; c_depth := 50 |} Selected 0 exec
         (* "a SEARCH SUBJECT {1}\r\n" with the continuation "x\r\n" *)
         [97;32;83;69;65;82;67;72;32;83;85;66;74;69;67;84;32;123;49;125;13;10]%N
         [[120;13;10]%N])
  = [RContinuation; RTagged [97]%N OK].
Proof.
  split; [intros k v; right; left; reflexivity|].
  split; [intro k; split; discriminate|]. vm_compute. reflexivity.
Qed.
