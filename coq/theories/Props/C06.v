(* Props/C06.v — placeholder while the model is validated *)
From PV Require Import Base.Prelude Cmd.Commands.
Theorem C06_placeholder : True.
Proof. exact I. Qed.
Print Assumptions C06_placeholder.
