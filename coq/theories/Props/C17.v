(* Props/C17.v — \Recent is announced to exactly one session and never stored.
   Model: UidRecent/Model.v.  [s_recent] of a selection is SessionFlags._recent
   (FETCH shows \Recent on u iff u is in it), [m_recent] the stored
   "not yet claimed" bit, [held] the ghost log of every hand-out
   (mailbox, uid, SELECT instance).  Only statements. *)
From PV Require Import Base.Prelude Wire.SeqSet.
From PV Require Import UidRecent.Model UidRecent.MapLemmas UidRecent.UidProofs
  UidRecent.RecentInv UidRecent.RecentProofs UidRecent.RecentTrace UidRecent.Witness
  UidRecent.Maildir UidRecent.MaildirProofs UidRecent.Drop UidRecent.DropProofs.

Local Open Scope N_scope.

(* the invariant (Inv_uid and Inv_rec) holds in every reachable state, for
   any number of connections and any choices of the environment *)
Theorem C17_inv_reachable : forall base shared (tr : list (op * choice)),
  full (run (init_cfg base shared) tr).
Proof. exact full_reachable. Qed.
Print Assumptions C17_inv_reachable.

(* Inv_recent: for every message, (number of selections holding it
   session-recent) + (stored bit) <= 1 *)
Theorem C17_inv_recent : forall base shared tr i u,
  let st := run (init_cfg base shared) tr in
  (length (holders st i u) + stored_bit st i u <= 1)%nat.
Proof. exact inv_recent_reachable. Qed.
Print Assumptions C17_inv_recent.

(* over its whole lifetime a message is shown \Recent by at most one SELECT
   instance, and that one is read-write *)
Theorem C17_reported_to_one_selection : forall base shared tr0 tr s1 sl1 s2 sl2 u,
  let st1 := run (init_cfg base shared) tr0 in
  lookup s1 (sess st1) = Some sl1 -> In u (s_recent sl1) ->
  lookup s2 (sess (run st1 tr)) = Some sl2 -> In u (s_recent sl2) ->
  s_bid sl1 = s_bid sl2 ->
  s_inst sl1 = s_inst sl2 /\ s_ro sl1 = false /\ s_ro sl2 = false.
Proof. exact reported_reachable. Qed.
Print Assumptions C17_reported_to_one_selection.

(* EXAMINE changes no stored bit, hands nothing out, touches nobody else *)
Theorem C17_examine_consumes_nothing : forall st s nm ch,
  let st' := fst (step st (Select s nm true) ch) in
  boxes st' = boxes st /\ held st' = held st /\
  forall t, t <> s -> lookup t (sess st') = lookup t (sess st).
Proof. exact examine_consumes_nothing. Qed.
Print Assumptions C17_examine_consumes_nothing.

(* a read-only selection never holds \Recent, whatever it does afterwards *)
Theorem C17_readonly_holds_nothing : forall base shared tr s sl,
  lookup s (sess (run (init_cfg base shared) tr)) = Some sl -> s_ro sl = true -> s_recent sl = [].
Proof. exact readonly_holds_nothing. Qed.
Print Assumptions C17_readonly_holds_nothing.

(* a message delivered while no read-write selection of the mailbox exists
   (shared selected sets) is stored with the bit set ... *)
Theorem C17_arrives_unselected_is_stored : forall st s i c dl mk b,
  NoDup (map fst (sess st)) ->
  cfg_shared st = true -> candidates st i = [] -> pick_ok st s i c = true ->
  lookup i (boxes st) = Some b ->
  c = None /\
  exists b', lookup i (boxes (fst (deliver i c dl mk st))) = Some b' /\
             In (mkMsg (b_max b + 1) true dl mk) (b_msgs b').
Proof. exact arrives_unselected_is_stored. Qed.
Print Assumptions C17_arrives_unselected_is_stored.

(* ... the bit survives every operation that is not a read-write SELECT of
   that mailbox, as long as the message exists ... *)
Theorem C17_stored_recent_survives : forall i st o ch b m,
  full st -> not_rw_select_of i st o ->
  lookup i (boxes st) = Some b -> In m (b_msgs b) -> m_recent m = true ->
  exists b', lookup i (boxes (fst (step st o ch))) = Some b' /\
             forall m', In m' (b_msgs b') -> m_uid m' = m_uid m -> m_recent m' = true.
Proof. exact stored_recent_survives. Qed.
Print Assumptions C17_stored_recent_survives.

(* ... and the first read-write SELECT claims exactly the stored ones: its
   RECENT count, its recent set, and no bit stays stored *)
Theorem C17_first_rw_select_claims : forall st s nm ch i b,
  find_box st nm = Some (i, b) -> box_ro st i = false ->
  exists sl' b',
    snd (step st (Select s nm false) ch)
      = OSelect i false (nlen (b_msgs b)) (nlen (stored_recent b)) (b_max b + 1) /\
    lookup s (sess (fst (step st (Select s nm false) ch))) = Some sl' /\
    s_bid sl' = i /\ s_ro sl' = false /\ s_view sl' = live_uids b /\
    s_recent sl' = stored_recent b /\ s_ann sl' = nlen (stored_recent b) /\
    lookup i (boxes (fst (step st (Select s nm false) ch))) = Some b' /\
    map m_uid (b_msgs b') = map m_uid (b_msgs b) /\
    forall m, In m (b_msgs b') -> m_recent m = false.
Proof. exact first_rw_select_claims. Qed.
Print Assumptions C17_first_rw_select_claims.

(* the arrival clause over whole histories: the stored bit survives any
   history in which nobody SELECTs that mailbox read-write ... *)
Theorem C17_stored_recent_survives_run : forall i tr st b m,
  full st -> no_rw_select i st tr ->
  lookup i (boxes st) = Some b -> In m (b_msgs b) -> m_recent m = true ->
  exists b', lookup i (boxes (run st tr)) = Some b' /\
             forall m', In m' (b_msgs b') -> m_uid m' = m_uid m -> m_recent m' = true.
Proof. exact stored_recent_survives_run. Qed.
Print Assumptions C17_stored_recent_survives_run.

(* ... and the first read-write SELECT (any connection, any name denoting the
   mailbox) then counts it in RECENT, holds it (FETCH shows it \Recent to that
   connection) and clears every stored bit, if the message still exists *)
Theorem C17_arrival_claimed_by_first_rw_select : forall i tr st b m s nm ch b' m',
  full st -> no_rw_select i st tr ->
  lookup i (boxes st) = Some b -> In m (b_msgs b) -> m_recent m = true ->
  find_box (run st tr) nm = Some (i, b') -> box_ro (run st tr) i = false ->
  In m' (b_msgs b') -> m_uid m' = m_uid m ->
  let st2 := fst (step (run st tr) (Select s nm false) ch) in
  exists sl' b2,
    snd (step (run st tr) (Select s nm false) ch)
      = OSelect i false (nlen (b_msgs b')) (nlen (stored_recent b')) (b_max b' + 1) /\
    lookup s (sess st2) = Some sl' /\ s_ro sl' = false /\ s_bid sl' = i /\
    In (m_uid m) (s_recent sl') /\ In (m_uid m) (s_view sl') /\
    (0 < nlen (stored_recent b')) /\
    lookup i (boxes st2) = Some b2 /\ forall x, In x (b_msgs b2) -> m_recent x = false.
Proof. exact arrival_claimed_by_first_rw_select. Qed.
Print Assumptions C17_arrival_claimed_by_first_rw_select.

(* RECENT counts: a sync announces a count exactly when it differs from the
   one announced before and remembers it; the remembered count is, in every
   reachable state, the number of messages of the view held recent; and the
   rows of a dump flagged \Recent are that many *)
Theorem C17_sync_announces : forall sl b,
  match y_recent (snd (sync_sel sl b)) with
  | Some c => s_ann (fst (sync_sel sl b)) = c /\ c <> s_ann sl
  | None => s_ann (fst (sync_sel sl b)) = s_ann sl
  end.
Proof. exact sync_announces. Qed.
Print Assumptions C17_sync_announces.

Theorem C17_announced_is_seen : forall base shared tr s sl,
  lookup s (sess (run (init_cfg base shared) tr)) = Some sl ->
  s_ann sl = nlen (filter (fun u => mem u (s_view sl)) (s_recent sl)).
Proof. exact announced_is_seen. Qed.
Print Assumptions C17_announced_is_seen.

Theorem C17_fetch_count_agrees : forall st s ch st' p rows,
  full st -> step st (Fetch s) ch = (st', OFetch p rows) ->
  exists sl', lookup s (sess st') = Some sl' /\
    (forall u r d m, In (u, r, d, m) rows -> r = mem u (s_recent sl')) /\
    nlen (filter (fun row => snd (fst (fst row))) rows) = s_ann sl'.
Proof. exact fetch_count_agrees. Qed.
Print Assumptions C17_fetch_count_agrees.

(* STORE, with any mode and any flags including \Recent, leaves every stored
   bit, every recent set and the hand-out log as the preceding NOOP left them *)
Theorem C17_store_cannot_touch_recent : forall st s set md fd fr ch,
  recent_data (fst (step st (Store s set md fd fr) ch)) = recent_data (fst (step st (Noop s) ch)).
Proof. exact store_cannot_touch_recent. Qed.
Print Assumptions C17_store_cannot_touch_recent.

(* COPY/MOVE: the stored bit of every message added to the destination is
   decided by the destination's selections alone (the source's \Recent status
   is no input of the delivery) *)
Theorem C17_copy_not_carried : forall mv src dst c us st b b' m,
  Inv_uid st ->
  lookup dst (boxes st) = Some b ->
  lookup dst (boxes (fst (copy_loop mv src dst c us st))) = Some b' ->
  In m (b_msgs b') -> b_max b < m_uid m ->
  m_recent m = match c with None => true | Some _ => false end.
Proof. exact copy_not_carried. Qed.
Print Assumptions C17_copy_not_carried.

(* fixed defect (DESIGN row 15 / C17-F1, C17-F2): EXAMINE + APPEND (\Recent)
   by the same connection leaves the message stored recent; the examiner never
   sees it flagged; the first read-write SELECT is told RECENT 1 and sees it *)
Theorem C17_examine_append_witness : outs w_examine_append =
  [ OSelect 0 true 0 0 101;
    OAppend 0 [49; 48; 49] (PSync (mkSync 0 (Some 1) None));
    OFetch (PSync (mkSync 0 None None)) [(101, false, false, 7)];
    OSelect 0 false 1 1 102;
    OFetch (PSync (mkSync 0 None None)) [(101, true, false, 7)] ].
Proof. exact w_examine_append_outs. Qed.
Print Assumptions C17_examine_append_witness.

(* the any_selected choice: either read-write selection may get it, never
   both, never the read-only one, never nobody *)
Theorem C17_two_rw_witness :
  skipn 4 (outs (w_two_rw 1)) =
  [ OFetch (PSync (mkSync 0 (Some 1) (Some 1))) [(101, true, false, 9)];
    OFetch (PSync (mkSync 0 (Some 1) None)) [(101, false, false, 9)];
    OFetch (PSync (mkSync 0 (Some 1) None)) [(101, false, false, 9)] ] /\
  nth_error (outs (w_two_rw 3)) 3 = Some OBadChoice.
Proof. split; [exact w_two_rw_1|exact (proj1 w_two_rw_bad)]. Qed.
Print Assumptions C17_two_rw_witness.

(* ------------------------------------------------------------- maildir
   new/ is the stored bit, claim_recent (new/ -> cur/) clears every bit; with
   the label [Adopt] and per-connection selected sets ([shared = false]) the
   invariant holds for the maildir instance as well. *)
Theorem C17_maildir_inv_recent : forall tr i u,
  let st := run (init_cfg 0 false) tr in
  (length (holders st i u) + stored_bit st i u <= 1)%nat.
Proof. exact (inv_recent_reachable 0 false). Qed.
Print Assumptions C17_maildir_inv_recent.

Theorem C17_maildir_claim_refines : forall d,
  abs (md_claim d) = mkBox (b_max (abs d)) (map clear_recent (b_msgs (abs d))) (b_log (abs d)).
Proof. exact abs_claim. Qed.
Print Assumptions C17_maildir_claim_refines.

(* ------------------------------------------------- the end of a connection
   UidRecent/Drop.v: [Drop s k] = connection [s] ends in way [k] (LOGOUT, EOF,
   reset, over-long line, read error, cancellation while reading / idling /
   draining, EOF inside a literal, too many BAD commands, an exception in a
   command body, a failing write).  IMAPConnection.run() deselects in a
   `finally`, so for every kind - whether _run_state() returns or an exception
   or a CancelledError escapes it ([exit_of]) - the connection holds no
   selection afterwards. *)
Theorem C17_end_no_selection : forall st s k ch,
  lookup s (sess (fst (xstep st (Drop s k) ch))) = None.
Proof. exact end_no_selection. Qed.
Print Assumptions C17_end_no_selection.

(* ... nothing else changes: stored bits, the hand-out log, the names and
   everybody else's selection *)
Theorem C17_end_frame : forall st s k ch,
  let st' := fst (xstep st (Drop s k) ch) in
  boxes st' = boxes st /\ held st' = held st /\ names st' = names st /\
  cfg_shared st' = cfg_shared st /\
  forall t, t <> s -> lookup t (sess st') = lookup t (sess st).
Proof. exact end_frame. Qed.
Print Assumptions C17_end_frame.

(* the ended connection is no candidate of any_selected for any mailbox, and
   no delivery by anybody else can be credited to it *)
Theorem C17_end_not_candidate : forall st s k ch i,
  ~ In s (candidates (fst (xstep st (Drop s k) ch)) i).
Proof. exact end_not_candidate. Qed.
Print Assumptions C17_end_not_candidate.

Theorem C17_end_not_picked : forall st s k ch t i c,
  NoDup (map fst (sess st)) -> t <> s ->
  pick_ok (fst (xstep st (Drop s k) ch)) t i c = true -> c <> Some s.
Proof. exact end_not_picked. Qed.
Print Assumptions C17_end_not_picked.

(* the holder of the only read-write selection of mailbox [i] ends, in any
   way: the next delivery into [i] can be credited to nobody and is stored
   with the bit set (then C17_stored_recent_survives / C17_first_rw_select_claims
   apply: the next read-write SELECT is told about it) *)
Theorem C17_end_then_arrival_stored : forall st s k ch t i c dl mk b,
  NoDup (map fst (sess st)) -> cfg_shared st = true ->
  (forall x, In x (candidates st i) -> x = s) ->
  let st' := fst (xstep st (Drop s k) ch) in
  pick_ok st' t i c = true -> lookup i (boxes st') = Some b ->
  c = None /\
  exists b', lookup i (boxes (fst (deliver i c dl mk st'))) = Some b' /\
             In (mkMsg (b_max b + 1) true dl mk) (b_msgs b').
Proof. exact end_then_arrival_stored. Qed.
Print Assumptions C17_end_then_arrival_stored.

(* histories of operations and ends of every kind: the invariant, Inv_recent
   and "shown to one SELECT instance" hold in every reachable state *)
Theorem C17_inv_reachable_with_ends : forall base shared (tr : list (xop * choice)),
  full (xrun (init_cfg base shared) tr).
Proof. exact xfull_reachable. Qed.
Print Assumptions C17_inv_reachable_with_ends.

Theorem C17_inv_recent_with_ends : forall base shared tr i u,
  let st := xrun (init_cfg base shared) tr in
  (length (holders st i u) + stored_bit st i u <= 1)%nat.
Proof. exact xinv_recent_reachable. Qed.
Print Assumptions C17_inv_recent_with_ends.

Theorem C17_reported_to_one_selection_with_ends : forall base shared tr0 tr s1 sl1 s2 sl2 u,
  let st1 := xrun (init_cfg base shared) tr0 in
  lookup s1 (sess st1) = Some sl1 -> In u (s_recent sl1) ->
  lookup s2 (sess (xrun st1 tr)) = Some sl2 -> In u (s_recent sl2) ->
  s_bid sl1 = s_bid sl2 ->
  s_inst sl1 = s_inst sl2 /\ s_ro sl1 = false /\ s_ro sl2 = false.
Proof. exact xreported_reachable. Qed.
Print Assumptions C17_reported_to_one_selection_with_ends.

(* the arrival clause over histories with ends: no end of any kind consumes a
   stored bit; the first read-write SELECT afterwards claims it *)
Theorem C17_arrival_claimed_with_ends : forall i tr st b m s nm ch b' m',
  full st -> xno_rw_select i st tr ->
  lookup i (boxes st) = Some b -> In m (b_msgs b) -> m_recent m = true ->
  find_box (xrun st tr) nm = Some (i, b') -> box_ro (xrun st tr) i = false ->
  In m' (b_msgs b') -> m_uid m' = m_uid m ->
  let st2 := fst (step (xrun st tr) (Select s nm false) ch) in
  exists sl' b2,
    snd (step (xrun st tr) (Select s nm false) ch)
      = OSelect i false (nlen (b_msgs b')) (nlen (stored_recent b')) (b_max b' + 1) /\
    lookup s (sess st2) = Some sl' /\ s_ro sl' = false /\ s_bid sl' = i /\
    In (m_uid m) (s_recent sl') /\ In (m_uid m) (s_view sl') /\
    (0 < nlen (stored_recent b')) /\
    lookup i (boxes st2) = Some b2 /\ forall x, In x (b_msgs b2) -> m_recent x = false.
Proof. exact xarrival_claimed_by_first_rw_select. Qed.
Print Assumptions C17_arrival_claimed_with_ends.

Theorem C17_ends_are_no_rw_select : forall i st s k ch r,
  xno_rw_select i (fst (xstep st (Drop s k) ch)) r -> xno_rw_select i st ((Drop s k, ch) :: r).
Proof. exact xno_rw_select_ends. Qed.
Print Assumptions C17_ends_are_no_rw_select.

(* the kinds after which only the `finally` of run() can deselect: an
   exception or a cancellation escapes the command loop *)
Theorem C17_escaping_kinds : forall k,
  exit_of k <> XReturn <->
  In k [ELineLimit; EReadError; ECmdExc; EWriteError; ECancelWrite].
Proof. exact escaping_kinds. Qed.
Print Assumptions C17_escaping_kinds.

(* seeded C17-7 as an execution: A selects, ends by an over-long line
   (BYE [SERVERBUG], exception escapes), C appends, D selects: RECENT 1; with
   the selection still in place "nobody" would not be an allowed pick and the
   dead connection would be the only one *)
Theorem C17_end_witness : xouts w_end_history =
  [ XOut (OSelect 0 false 0 0 101);
    XEnd FServerBug XException;
    XOut (OAppend 0 [49; 48; 49] PNone);
    XOut (OSelect 0 false 1 1 102) ].
Proof. exact w_end_outs. Qed.
Print Assumptions C17_end_witness.

Theorem C17_end_kept_selection_refuted :
  let st := xrun init [(XOp (Select 0 0 false), mkChoice None)] in
  pick_ok st 2 0 None = false /\ pick_ok st 2 0 (Some 0) = true /\
  pick_ok (fst (xstep st (Drop 0 ELineLimit) (mkChoice None))) 2 0 None = true /\
  pick_ok (fst (xstep st (Drop 0 ELineLimit) (mkChoice None))) 2 0 (Some 0) = false.
Proof. exact w_end_kept_refuted. Qed.
Print Assumptions C17_end_kept_selection_refuted.
