(* Props/C20.v -- placeholder while the proofs are written *)
From PV Require Import Base.Prelude Sync.RWLock.
