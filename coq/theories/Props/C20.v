(* Props/C20.v -- Lock primitives give the exclusion they document.
   Only statements, each closed by [exact] and followed by Print Assumptions.

   Model: Sync/RWLock.v (CPython 3.12 asyncio.Lock + pymap's
   _AsyncioReadWriteLock, algorithm [Fixed] = the current tree, [Old] = the tree
   before the fix commit), Sync/FileLock.v (pymap.concurrent.FileLock).
   [exec al (init progs) sched = Some (st, ev)]: the schedule [sched] -- any
   sequence of [Run t] (task t runs from one suspension point to the next) and
   [Cancel t] (task.cancel()) -- is executable from the initial state of ANY
   number of tasks with ANY straight-line programs of read/write acquisitions,
   and leads to [st] with the enter/exit log [ev]. *)
From PV Require Import Base.Prelude Sync.RWLock Sync.RWLockProofs Sync.FileLock Sync.FileLockProofs.
From PV Require Import Sync.ThreadRWLock Sync.ThreadRWLockProofs.

(* never two writers inside, never a writer together with a reader: every
   interleaving, every cancellation point, any number of tasks *)
Theorem C20_excl : forall progs sched st ev,
  exec Fixed (init progs) sched = Some (st, ev) ->
  writers_in st <= 1 /\ (writers_in st = 1 -> readers_in st = 0).
Proof. exact excl_thm. Qed.
Print Assumptions C20_excl.

(* Lock.release() is never called on an unlocked mutex and the reader count
   never goes below zero *)
Theorem C20_no_runtime_error : forall progs sched st ev,
  exec Fixed (init progs) sched = Some (st, ev) -> err st = false.
Proof. exact no_error_thm. Qed.
Print Assumptions C20_no_runtime_error.

(* no deadlock: while some task has not finished, some task has a ready
   handle and its step is defined (holders are at a yield, so "every holder
   eventually releases" is: the scheduler eventually runs them) *)
Theorem C20_no_deadlock : forall progs sched st ev,
  exec Fixed (init progs) sched = Some (st, ev) ->
  (exists t, unfinished st t) ->
  exists t st' ev', enabled st t = true /\ step Fixed st (Run t) = Some (st', ev').
Proof. exact no_deadlock_thm. Qed.
Print Assumptions C20_no_deadlock.

(* and every step of a task consumes a bounded budget, so runs are finite:
   together with C20_no_deadlock every maximal run ends with all tasks done *)
Theorem C20_terminates : forall progs sched st ev,
  exec Fixed (init progs) sched = Some (st, ev) ->
  run_steps sched + measure st <= measure (init progs).
Proof. exact terminates_thm. Qed.
Print Assumptions C20_terminates.

(* cancelling any unfinished task in any reachable state: the task is runnable,
   its next step ends it, it is left in no queue; the resulting state is again
   a reachable one, so C20_excl / C20_no_deadlock keep holding afterwards *)
Theorem C20_cancel_ok : forall progs sched st ev t,
  exec Fixed (init progs) sched = Some (st, ev) -> unfinished st t ->
  exists st2 ev2,
    exec Fixed (init progs) (sched ++ [Cancel t; Run t]) = Some (st2, ev2) /\
    (exists tk, nth_error (tasks st2) t = Some tk /\ tpc tk = Dead) /\
    ~ In t (tids (rl st2)) /\ ~ In t (tids (wl st2)).
Proof. exact cancel_ok_thm. Qed.
Print Assumptions C20_cancel_ok.

(* the algorithm before the fix: a second reader enters next to a writer
   while the first reader is queued behind it (3 tasks, 3 steps) *)
Theorem C20_refuted_second_reader :
  exists progs sched st ev,
    exec Old (init progs) sched = Some (st, ev) /\ writers_in st = 1 /\ readers_in st = 1.
Proof. exact old_second_reader. Qed.
Print Assumptions C20_refuted_second_reader.

(* the algorithm before the fix: cancelling the queued first reader leaves the
   counter at 1; afterwards readers and writers overlap although nobody waits *)
Theorem C20_refuted_cancel :
  exists progs sched st ev,
    exec Old (init progs) sched = Some (st, ev) /\ writers_in st = 1 /\ readers_in st = 1 /\
    counter st = 2 /\ waiters (wl st) = [].
Proof. exact old_cancel_breaks. Qed.
Print Assumptions C20_refuted_cancel.

(* FileLock: at most one writer per lock file, for every schedule in which the
   lock file does not reach the expiration age while a writer is inside
   ([fexec true]: an [FExpire] label in such a state is not executable),
   whatever lock file (none, fresh, stale) the run starts with, any number of
   retry delays [n] *)
Theorem filelock_excl : forall n progs f0 sched st ev,
  fexec true n (finit progs f0) sched = Some (st, ev) -> fwriters_in st <= 1.
Proof. exact filelock_excl_lemma. Qed.
Print Assumptions filelock_excl.

(* FileLock: the lock file exists exactly while a writer is inside -- every
   way out of the critical section (normal exit, exception, cancellation) has
   removed it *)
Theorem filelock_released : forall n progs sched st ev,
  fexec true n (finit progs Absent) sched = Some (st, ev) ->
  (fwriters_in st = 0 -> file st = Absent) /\ (fwriters_in st = 1 -> file st = Fresh).
Proof. exact filelock_released_lemma. Qed.
Print Assumptions filelock_released.

(* the layer that uses the lock file (maildir io.py `with_write`, UidList and
   Subscriptions): for every combination of body outcome (normal, exception),
   touched/empty/existed and a failing exit flush (file_write/file_delete
   raising), releasing the lock is the last thing __aexit__ does and the lock
   file is gone afterwards *)
Theorem withwrite_released : forall r,
  last (ww_exit r) WFlushWrite = WRelease /\ ww_file_after r = Absent.
Proof. exact withwrite_released_lemma. Qed.
Print Assumptions withwrite_released.

(* the expiry assumption is necessary: a holder that outlives the expiration
   loses the lock to a newcomer *)
Theorem filelock_refuted_overstay :
  exists progs sched st ev,
    fexec false 1 (finit progs Absent) sched = Some (st, ev) /\ fwriters_in st = 2.
Proof. exact filelock_overstay. Qed.
Print Assumptions filelock_refuted_overstay.

(* ------------------------------------------------------------------------
   The threading twin, pymap.concurrent._ThreadingReadWriteLock -- the lock
   the maildir backend really uses (its commands run in a thread pool).
   Model Sync/ThreadRWLock.v: any number of threads, any programs of read /
   write sections (bodies may raise), one step = one threading.Lock.acquire()
   (blocking, not re-entrant) / release() (no ownership) / read of _counter /
   write of _counter.  [texec (tinit progs) sched]: the state after the
   schedule [sched], an ARBITRARY list of thread ids (picking a blocked or
   finished thread is a stutter) -- every interleaving is covered. *)

(* a writer holds the lock from the return of its acquire() to its release()
   ([WBody], [WR1]), a reader from its increment of the counter to its
   decrement ([RA6], [RBody], [RR1..RR3]): never two writers, never a writer
   together with a reader *)
Theorem C20_thread_excl : forall progs sched,
  let st := texec (tinit progs) sched in
  twriters_in st <= 1 /\ (twriters_in st = 1 -> treaders_in st = 0).
Proof. exact thr_excl_thm. Qed.
Print Assumptions C20_thread_excl.

(* the same for the bodies of the critical sections alone *)
Theorem C20_thread_body_excl : forall progs sched,
  let st := texec (tinit progs) sched in
  tsum body_w (ths st) <= 1 /\ (1 <= tsum body_w (ths st) -> tsum body_r (ths st) = 0).
Proof. exact thr_body_excl_thm. Qed.
Print Assumptions C20_thread_body_excl.

(* _counter = number of readers between their increment and their decrement
   (readers inside plus readers past the increment / before the decrement) *)
Theorem C20_thread_counter : forall progs sched,
  let st := texec (tinit progs) sched in tcnt st = treaders_in st.
Proof. exact thr_counter_thm. Qed.
Print Assumptions C20_thread_counter.

(* no `RuntimeError: release unlocked lock`, the counter never goes negative *)
Theorem C20_thread_no_runtime_error : forall progs sched,
  terr (texec (tinit progs) sched) = false.
Proof. exact thr_no_error_thm. Qed.
Print Assumptions C20_thread_no_runtime_error.

(* no deadlock: in every reachable state in which some thread has not
   finished, some thread is not blocked, and its step consumes budget *)
Theorem C20_thread_no_deadlock : forall progs sched,
  let st := texec (tinit progs) sched in
  (exists t, tunfinished st t) ->
  exists t, tenabled st t = true /\ tmeasure (tstep st t) < tmeasure st.
Proof. exact thr_no_deadlock_thm. Qed.
Print Assumptions C20_thread_no_deadlock.

(* ranking: the effective (non-stutter) steps of any schedule are bounded by
   the budget of the programs (20 per section + 1 per thread) *)
Theorem C20_thread_terminates : forall progs sched,
  teff (tinit progs) sched + tmeasure (texec (tinit progs) sched) <= tmeasure (tinit progs).
Proof. exact thr_terminates_thm. Qed.
Print Assumptions C20_thread_terminates.

(* hence every schedule with that many effective steps -- every fair schedule
   eventually has, by C20_thread_no_deadlock -- has run every thread to its end *)
Theorem C20_thread_fair_finishes : forall progs sched,
  tmeasure (tinit progs) <= teff (tinit progs) sched ->
  tall_finished (texec (tinit progs) sched).
Proof. exact thr_fair_finishes_thm. Qed.
Print Assumptions C20_thread_fair_finishes.

(* exceptions: whatever bodies raised (the `finally` of read_lock / the `with`
   of write_lock are the only exit paths), once every thread has ended --
   normally or by its exception -- both mutexes are free and the counter is 0 *)
Theorem C20_thread_released : forall progs sched,
  let st := texec (tinit progs) sched in
  tall_finished st -> trl st = false /\ twl st = false /\ tcnt st = 0.
Proof. exact thr_released_thm. Qed.
Print Assumptions C20_thread_released.
