(* Props/C01.v — Sequence numbers: the client view never diverges from the server.
   Statements only; proofs in Store/*Proofs.v.  Model: Store/System.v (any number of
   connections on any number of dict-backend and maildir-backend mailboxes, atomic command
   steps). *)
From PV Require Import Base.Prelude Store.Base Store.BaseProofs Store.Flags Store.ModSeq
     Store.Mailbox Store.MailboxProofs Store.View Store.ViewProofs Store.Compare
     Store.CompareProofs Store.Session Store.SelProofs Store.System Store.SystemProofs
     Store.StoreExamples Store.SystemNs Store.SystemNsProofs Store.NsExamples Wire.SeqSet.

(* Pure core (SelectedMailbox._compare): for all strictly ascending before/after uid
   lists, where _seqs_cache numbers `before`, every new uid is larger than every old
   one, and nothing is missing when EXPUNGE is forbidden: a client that applies the
   produced EXPUNGE/EXISTS responses in order to `before` ends exactly at `after`
   (the new uids in order); every EXPUNGE number lies in 1..current count and EXISTS
   never shrinks ([numbers_ok]); no EXPUNGE is produced when hide_expunged is set. *)
Theorem C01_compare_sync : forall before after bseqs hide,
  ssorted before -> ssorted after -> seqs_ok bseqs before ->
  (forall u v, In u after -> ~ In u before -> In v before -> (v < u)%N) ->
  (hide = true -> incl before after) ->
  let rs := compare_uids before bseqs after hide in
  client_run before rs (ndiff after before) = Some after
  /\ numbers_ok (N_of_len before) rs
  /\ (hide = true -> no_expunge rs).
Proof. exact compare_sync_core. Qed.
Print Assumptions C01_compare_sync.

(* SynchronizedMessages._update keeps _sorted strictly ascending and _seqs_cache
   exact although it renumbers only from the lowest insertion index *)
Theorem C01_update_keeps_numbering : forall msgs v,
  ssorted (v_sorted v) -> seqs_ok (v_seqs v) (v_sorted v) ->
  ssorted (v_sorted (view_update msgs v))
  /\ seqs_ok (v_seqs (view_update msgs v)) (v_sorted (view_update msgs v)).
Proof. exact update_keeps_numbering. Qed.
Print Assumptions C01_update_keeps_numbering.

(* ... and _remove(pending=False) rebuilds both *)
Theorem C01_remove_keeps_numbering : forall uids v,
  ssorted (v_sorted v) -> seqs_ok (v_seqs v) (v_sorted v) ->
  ssorted (v_sorted (view_remove uids false v))
  /\ seqs_ok (v_seqs (view_remove uids false v)) (v_sorted (view_remove uids false v)).
Proof. exact remove_keeps_numbering. Qed.
Print Assumptions C01_remove_keeps_numbering.

(* merging FETCH responses by sequence number (CommandResponse.add_untagged) does not
   change what the client reads, provided no EXPUNGE is among them *)
Theorem C01_merge_harmless : forall rs l k st st',
  no_exp l -> no_exp rs ->
  client_run_st st (l ++ rs ++ k) = Some st' ->
  client_run_st st (add_untagged l rs ++ k) = Some st'.
Proof. exact add_untagged_run. Qed.
Print Assumptions C01_merge_harmless.

(* System level: the invariant holds initially and is preserved by every label
   (any session, any command, IDLE wake-ups, deliveries) *)
Theorem C01_inv_init : Inv sys_empty.
Proof. exact inv_init. Qed.
Print Assumptions C01_inv_init.

Theorem C01_inv_step : forall sy l, Inv sy -> Inv (fst (step sy l)).
Proof. exact inv_step. Qed.
Print Assumptions C01_inv_step.

Theorem C01_inv_reachable : forall ls, Inv (exec sys_empty ls).
Proof. exact reachable_inv. Qed.
Print Assumptions C01_inv_reachable.

(* For every sequence of labels — any number of sessions, any command programs, any
   interleaving of the atomic steps — the shadow client of every connection, fed that
   connection's responses in order, never fails (every EXPUNGE in range, EXISTS never
   shrinking, every FETCH/STORE/SEARCH result labelled with the number the client
   holds for that message, no internal error) and after every step holds exactly the
   list of messages the server will use to interpret that connection's next command *)
Theorem C01_clients_in_sync : forall ls,
  exists cls, shadow_exec (sys_empty, fun _ => None) ls = Some (exec sys_empty ls, cls)
              /\ forall s, cls s = view_of (exec sys_empty ls) s.
Proof. exact clients_in_sync. Qed.
Print Assumptions C01_clients_in_sync.

(* the maildir backend (update_selected = full rescan + set_messages, no modification log):
   label sequences may create maildir mailboxes (CreateMaildir) as well as dict mailboxes
   (CreateBox), so the theorem above covers both; spelled out for sequences that begin by
   creating maildir mailboxes.  A kernel-evaluated maildir trace: C02_example_maildir. *)
Theorem C01_maildir_clients_in_sync : forall boxes ls,
  let ls' := map CreateMaildir boxes ++ ls in
  exists cls, shadow_exec (sys_empty, fun _ => None) ls' = Some (exec sys_empty ls', cls)
              /\ forall s, cls s = view_of (exec sys_empty ls') s.
Proof. exact maildir_clients_in_sync. Qed.
Print Assumptions C01_maildir_clients_in_sync.

(* the numeric clauses for the responses of every step of every reachable state *)
Theorem C01_numbers_in_range : forall ls l s start,
  let sy := exec sys_empty ls in
  label_actor l = Some s ->
  (if starts_fresh sy l then start = [] else view_of sy s = Some start) ->
  view_of (fst (step sy l)) s <> None ->
  numbers_ok (N_of_len start) (snd (step sy l)).
Proof. exact numbers_in_range. Qed.
Print Assumptions C01_numbers_in_range.

(* no EXPUNGE in the answer to a non-UID FETCH, STORE or SEARCH *)
Theorem C01_nonuid_no_expunge : forall ls s c,
  let sy := exec sys_empty ls in
  ss_idle (sess_of sy s) = false -> nonuid_data c = true ->
  no_exp (snd (step sy (Cmd s c))).
Proof. exact reachable_nonuid_no_expunge. Qed.
Print Assumptions C01_nonuid_no_expunge.

(* non-vacuity: a three-session trace with interleaved expunge, append, hidden
   expunge and move, evaluated by the kernel *)
Theorem C01_example_trace :
  match shadow_exec (sys_empty, fun _ => None) demo_trace with
  | Some (_, cls) => cls 1%N = Some [102; 103; 105]%N /\ cls 3%N = Some [102; 103; 105]%N
  | None => False
  end.
Proof. exact demo_shadow. Qed.
Print Assumptions C01_example_trace.

Theorem C01_example_compare :
  compare_uids [101; 102; 104; 107]%N [(101, 1); (102, 2); (104, 3); (107, 4)]%N
               [102; 107; 108; 110]%N false
  = [Expunge 3; Expunge 1; Exists 4].
Proof. exact compare_example. Qed.
Print Assumptions C01_example_compare.

(* ------------------------------------------------------------------------------------
   Mailbox CREATE / DELETE / RENAME while connections have the mailbox selected
   (Store/SystemNs.v: the system above with a namespace; labels NCreate/NDelete/NRename
   issued by any connection on any mailbox, the inner labels address mailboxes by name).
   ------------------------------------------------------------------------------------ *)

(* the invariant (the system invariant of the inner system, and: a connection that was sent
   BYE has no selection) holds initially, is preserved by every label, holds in every
   reachable state *)
Theorem C01_inv_reachable_ns :
  NInv ns_empty /\ (forall ns l, NInv ns -> NInv (fst (nstep ns l)))
  /\ forall ls, NInv (nexec ns_empty ls).
Proof. exact (conj ninv_empty (conj ninv_step ninv_reachable)). Qed.
Print Assumptions C01_inv_reachable_ns.

(* For every sequence of labels, now including CREATE, DELETE and RENAME by any connection
   on any mailbox: the shadow client of every connection never fails — every response it is
   sent can be applied to the list it holds; a BYE comes with nothing but the tagged
   response, and then the server holds no selection for the connection and has closed it —
   and afterwards each client holds exactly the list the server will use for that
   connection's next command (none after BYE) *)
Theorem C01_clients_in_sync_ns : forall ls,
  exists cls, nshadow_exec (ns_empty, fun _ => None) ls = Some (nexec ns_empty ls, cls)
              /\ forall s, cls s = nview (nexec ns_empty ls) s.
Proof. exact ns_clients_in_sync. Qed.
Print Assumptions C01_clients_in_sync_ns.

(* in every reachable state a connection that has been told BYE is attached to no mailbox *)
Theorem C01_closed_no_selection : forall ls s,
  nmem s (ns_closed (nexec ns_empty ls)) = true -> attached (nexec ns_empty ls) s = None.
Proof. exact ns_closed_no_selection. Qed.
Print Assumptions C01_closed_no_selection.

(* a connection whose selected name no longer denotes the mailbox object it selected
   (deleted, renamed away, deleted and created again, INBOX renamed) is told: whatever it
   sends next — SELECT/EXAMINE aside, and APPEND into the very object it has selected under
   that object's new name (open finding C10-F4) — is answered with BYE, tagged responses or
   the IDLE continuation only: no EXPUNGE, EXISTS, RECENT, FETCH or SEARCH data.  For all
   states, not only reachable ones. *)
Theorem C01_deleted_selection_is_told : forall ns s x c,
  sel_of (ns_sys ns) s = Some x -> stale ns s = true ->
  nmem s (ns_closed ns) = false -> ss_idle (sess_of (ns_sys ns) s) = false ->
  match c with
  | CSelect _ _ => True
  | CAppend name _ _ =>
    rid ns name = sel_box x \/ forall r, In r (snd (nstep ns (NOld (Cmd s c)))) -> told r
  | _ => forall r, In r (snd (nstep ns (NOld (Cmd s c)))) -> told r
  end.
Proof. exact ns_stale_told. Qed.
Print Assumptions C01_deleted_selection_is_told.

(* from every reachable state, whatever happens (any label of any connection): a connection
   that is attached to mailbox object j afterwards was attached to j before, unless the
   label is its own SELECT/EXAMINE — a selection is never silently moved to another mailbox
   (a re-created mailbox of the same name, the fresh INBOX after RENAME INBOX).  Mailbox
   identities are allocated from a counter and never reused (SystemNs.alloc). *)
Theorem C01_never_reattached : forall ls l s j,
  let ns := nexec ns_empty ls in
  (nlabel_actor l = Some s -> nstarts_fresh ns l = false) ->
  attached (fst (nstep ns l)) s = Some j -> attached ns s = Some j.
Proof. exact ns_never_reattached. Qed.
Print Assumptions C01_never_reattached.

(* non-vacuity: RENAME INBOX under three selections, DELETE by the examiner, CREATE by a
   stale connection; NO [NONEXISTENT], BYE, the fresh INBOX and the renamed mailbox, evaluated
   by the kernel *)
Theorem C01_example_ns :
  let ns := nexec ns_empty ns_demo in
  ns_names ns = [(1, 3); (4, 1); (2, 4)]%N /\ ns_closed ns = [1; 3; 2]%N
  /\ map (attached ns) [1; 2; 3; 4; 5]%N = [None; None; None; Some 3; Some 1]%N
  /\ skipn 10 (snd (nrun ns_empty ns_demo))
     = [[R (Tagged OK CNone)]; [R (Tagged NO CNonexistent)]; [R (Tagged NO CNonexistent)];
        [R (Tagged NO CNonexistent)]; [Bye; R (Tagged OK CNone)]; [Bye; R (Tagged OK CNone)];
        [Bye; R (Tagged OK CNone)]; [R (Tagged OK CNone)];
        [R (Exists 0); R (Recent 0); R (UidNext 101); R (Tagged OK CReadWrite)];
        [R (Tagged OK CNone)];
        [R (Exists 3); R (Recent 0); R (UidNext 104); R (Unseen 1); R (Tagged OK CReadWrite)];
        [R (Tagged OK CNone)]]%N
  /\ match nshadow_exec (ns_empty, fun _ => None) ns_demo with
     | Some (_, cls) => map cls [1; 2; 3; 4; 5]%N
                        = [None; None; None; Some []; Some [101; 102; 103]]%N
     | None => False
     end.
Proof. exact ns_demo_ok. Qed.
Print Assumptions C01_example_ns.
