(* Props/C15.v — placeholder while the proofs are being written. *)
From PV Require Import Base.Prelude MaildirFS.FS MaildirFS.UidList MaildirFS.Ops.
