(* Props/C15.v — Maildir state survives restart and crashes without UID damage.
   Only statements, each closed by [exact] and followed by Print Assumptions.

   Vocabulary (MaildirFS/Spec.v): [serves m f v uid key fl c] — a server
   started on filesystem m serves in folder f, under UIDVALIDITY v, message
   uid from the file with maildir key [key], flag letters fl, content c;
   [legal_ops_b lay m l] — every operation of l is, in the state it is
   applied to, one of the kinds of operation the backend performs (decided by
   MaildirFS/Legal.v and evaluated on every real trace by the correspondence
   run); [after_crash lay m l k] — the filesystem left by a process killed
   after the first k operations of l; [touched l key] — some operation of l
   renames or unlinks the file with that key (STORE, MOVE, EXPUNGE of that
   very message). *)
From PV Require Import Base.Prelude Base.Decimal MaildirFS.FS MaildirFS.UidList MaildirFS.Ops
  MaildirFS.Spec MaildirFS.Legal MaildirFS.Examples
  MaildirFS.UidListProofs MaildirFS.DurabilityProofs MaildirFS.LegalProofs MaildirFS.CrashProofs.

(* a completely written uid list is always readable: parse (print u) = u *)
Theorem C15_uidlist_roundtrip : forall u,
  wf_uidl u = true -> parse_uidl (print_uidl u) = Ok u.
Proof. exact uidl_roundtrip. Qed.
Print Assumptions C15_uidlist_roundtrip.

Theorem C15_subscriptions_roundtrip : forall names,
  wf_subs names = true -> parse_subs (print_subs names) = names.
Proof. exact subs_roundtrip. Qed.
Print Assumptions C15_subscriptions_roundtrip.

(* the decision procedure used on the real traces is sound *)
Theorem C15_legal_b_sound : forall m o, legal_b m o = true -> legal m o.
Proof. exact legal_b_sound. Qed.
Print Assumptions C15_legal_b_sound.

(* control files are never left unreadable, at any crash point: every uid list
   on disk parses to a list whose uids are distinct and below its counter;
   and a maildir key never names two delivered files *)
Theorem C15_control_files_readable : forall lay m l k,
  Inv m -> legal_ops_b lay m l = true -> Inv (after_crash lay m l k).
Proof. exact crash_inv. Qed.
Print Assumptions C15_control_files_readable.

(* every message served before (in particular every acknowledged APPEND /
   COPY / MOVE result and every acknowledged flag change) is served after a
   kill at any point with the same UIDVALIDITY, uid, flags and content, unless
   an executed operation renames or removes that message's own file *)
Theorem C15_acked_messages_survive : forall lay m l k f v uid key fl c,
  legal_ops_b lay m l = true ->
  serves m f v uid key fl c -> ~ touched (crash k l) key ->
  serves (after_crash lay m l k) f v uid key fl c.
Proof. exact crash_serves. Qed.
Print Assumptions C15_acked_messages_survive.

(* no uid is assigned to a different message: between two crash points
   j <= k of one run a folder keeps its UIDVALIDITY, its next-uid counter never
   decreases and exceeds every uid recorded, and a uid recorded at both points
   names the same maildir key *)
Theorem C15_uid_never_reassigned : forall lay m l j k f u u' uid key key',
  Inv m -> legal_ops_b lay m l = true -> (j <= k)%nat ->
  uidl_at (after_crash lay m l j) f u -> uidl_at (after_crash lay m l k) f u' ->
  recorded u uid key -> recorded u' uid key' ->
  key = key' /\ u_val u' = u_val u /\ (u_next u <= u_next u')%N /\ (uid < u_next u)%N.
Proof. exact crash_uid_one_key. Qed.
Print Assumptions C15_uid_never_reassigned.

(* ... and the file a key names is never rewritten by a legal operation *)
Theorem C15_files_never_rewritten : forall lay m o m' f key i c f' i' c',
  Inv m -> legal m o -> apply_op lay m o = Some m' ->
  file_at m f key i c -> file_at m' f' key i' c' -> c = c'.
Proof. exact legal_step_content. Qed.
Print Assumptions C15_files_never_rewritten.

(* open finding C15-F1: a kill between taking and releasing a lock leaves the
   lock file; a restarted server refuses the folder (NO [TIMEOUT]) although a
   message had been acknowledged; it is served once the lock has expired *)
Theorem C15_refuted_stale_lock :
  Nat.leb ex_first_len 13 = true
  /\ recover_folder (ex_state 13) [] = VLocked
  /\ served_cids (recover_folder (expire_locks (ex_state 13)) []) = [1%N].
Proof. exact stale_lock_witness. Qed.
Print Assumptions C15_refuted_stale_lock.

(* the hypotheses above are satisfiable: the example history is legal *)
Theorem C15_example_legal :
  legal_ops_b LPlus ex_fs0 ex_ops = true /\ length ex_ops = 34%nat.
Proof. exact ex_legal. Qed.
Print Assumptions C15_example_legal.
