(* Props/C15.v — Maildir state survives restart and crashes without UID damage.
   Only statements, each closed by [exact] and followed by Print Assumptions.

   Vocabulary (MaildirFS/Spec.v, Ops.v, Legal.v, CrashProofs.v):
   [hist_ops lay m sel h] — the filesystem operations of the history h of
   commands (SELECT/EXAMINE, APPEND, STORE, COPY, MOVE, EXPUNGE, CHECK, NOOP,
   CLOSE, CREATE, RENAME, SUBSCRIBE, UNSUBSCRIBE) started on filesystem m with
   selection sel; [after_crash lay m l k] — the filesystem left by a process
   killed after the first k operations of l; [executed lay m l k] — the
   operations executed by then; [serves m f v uid key fl c] — a server started
   on m serves in folder f, under UIDVALIDITY v, message uid from the file with
   maildir key [key], flag letters fl, content c; [touched l key] — some
   operation of l renames or unlinks the file with that key (a STORE, MOVE or
   EXPUNGE of that very message); [moved_names lay l f] — the name folder f has
   after the directory renames of l; [Inv] — every uid list on disk is a
   completely written well-formed one respecting its counter, maildir keys are
   unique, delivered files have recordable names, one entry per path (decided
   by [inv_b] on every directory snapshot of the real backend). *)
From PV Require Import Base.Prelude Base.Decimal MaildirFS.FS MaildirFS.UidList MaildirFS.Ops
  MaildirFS.Spec MaildirFS.Legal MaildirFS.Examples
  MaildirFS.UidListProofs MaildirFS.DurabilityProofs MaildirFS.LegalProofs MaildirFS.CrashProofs
  MaildirFS.CommandProofs MaildirFS.RecoverProofs MaildirFS.Delete MaildirFS.DeleteProofs.

(* ---- the text formats: a completely written file is always readable *)
Theorem C15_uidlist_roundtrip : forall u,
  wf_uidl u = true -> parse_uidl (print_uidl u) = Ok u.
Proof. exact uidl_roundtrip. Qed.
Print Assumptions C15_uidlist_roundtrip.

Theorem C15_subscriptions_roundtrip : forall names,
  wf_subs names = true -> parse_subs (print_subs names) = names.
Proof. exact subs_roundtrip. Qed.
Print Assumptions C15_subscriptions_roundtrip.

(* ---- all histories x all crash prefixes *)
(* every operation of every history is of a legal kind where it is applied *)
Theorem C15_history_legal : forall lay h m sel,
  Inv m -> legal_ops_b lay m (hist_ops lay m sel h) = true.
Proof. exact hist_ops_legal. Qed.
Print Assumptions C15_history_legal.

(* control files are never left unreadable: whatever the history and the kill
   point, the invariant holds on what is left *)
Theorem C15_control_files_readable : forall lay m sel h k,
  Inv m -> Inv (after_crash lay m (hist_ops lay m sel h) k).
Proof. exact hist_crash_inv. Qed.
Print Assumptions C15_control_files_readable.

(* every message served before the history starts (m is any state satisfying
   Inv, in particular the state after any earlier history: every acknowledged
   APPEND / COPY / MOVE result and flag change) is served after a kill at any
   point with the same UIDVALIDITY, uid, flags and content, in its folder under
   the name the folder has by then, unless an executed operation renames or
   removes that message's own file *)
Theorem C15_acked_messages_survive : forall lay m sel h k f v uid key fl c,
  Inv m -> serves m f v uid key fl c -> ~ touched (crash k (hist_ops lay m sel h)) key ->
  serves (after_crash lay m (hist_ops lay m sel h) k)
         (moved_names lay (executed lay m (hist_ops lay m sel h) k) f) v uid key fl c.
Proof. exact hist_crash_serves. Qed.
Print Assumptions C15_acked_messages_survive.

(* the state after any completed history satisfies Inv again (so the theorems
   chain over successive histories) *)
Theorem C15_history_reaches_inv : forall lay m l,
  Inv m -> legal_ops_b lay m l = true -> Inv (fst (apply_ops lay m l)).
Proof. exact apply_ops_inv. Qed.
Print Assumptions C15_history_reaches_inv.

(* no uid is assigned to a different message: between two crash points
   j <= k of one run a folder (under its later name phi f; phi is the identity
   when the run renames no directory) keeps its UIDVALIDITY, its next-uid
   counter never decreases and exceeds every uid recorded, and a uid recorded
   at both points names the same maildir key *)
Theorem C15_uid_never_reassigned : forall lay m l j k,
  Inv m -> legal_ops_b lay m l = true -> (j <= k)%nat ->
  exists phi, ((forall o, In o l -> forall a b, o <> ORenameDir a b) -> forall f, phi f = f) /\
  forall f u u' uid key key',
  uidl_at (after_crash lay m l j) f u -> uidl_at (after_crash lay m l k) (phi f) u' ->
  recorded u uid key -> recorded u' uid key' ->
  key = key' /\ u_val u' = u_val u /\ (u_next u <= u_next u')%N /\ (uid < u_next u)%N.
Proof. exact crash_uid_one_key. Qed.
Print Assumptions C15_uid_never_reassigned.

(* ... and the file a key names is never rewritten by a legal operation *)
Theorem C15_files_never_rewritten : forall lay m o m' f key i c f' i' c',
  Inv m -> legal lay m o -> apply_op lay m o = Some m' ->
  file_at m f key i c -> file_at m' f' key i' c' -> c = c'.
Proof. exact legal_step_content. Qed.
Print Assumptions C15_files_never_rewritten.

(* ---- what an acknowledgement means, command by command (all operations of
   the command executed; [o_ack = AOk]: the model answers OK) *)
Theorem C15_append_acked : forall lay m sel f msgs m',
  Inv m -> let o := run_cmd lay m sel (CAppend f msgs) in
  o_ack o = AOk -> apply_ops lay m (o_ops o) = (m', true) ->
  exists u, uidl_at m f u /\
    forall d, In d (append_delivers u msgs) ->
    let '(uid, k, i, c) := d in serves m' f (u_val u) uid k (flags_of_info i) c.
Proof. exact cmd_append_acked. Qed.
Print Assumptions C15_append_acked.

(* the j-th message of an APPEND is announced and served under uid next+j *)
Theorem C15_append_uids : forall msgs u j a, nth_error msgs j = Some a ->
  nth_error (append_delivers u msgs) j
  = Some ((u_next u + N.of_nat j)%N, a_key a, info_of_letters (a_flags a), a_cid a).
Proof. exact append_delivers_nth. Qed.
Print Assumptions C15_append_uids.

Theorem C15_copy_acked : forall lay m f ro uids g names m',
  Inv m -> let o := run_cmd lay m (Some (f, ro)) (CCopy uids g names) in
  o_ack o = AOk -> apply_ops lay m (o_ops o) = (m', true) ->
  exists us ug, uidl_at m f us /\ uidl_at m g ug /\
    forall d, In d (copy_delivers us (files_of m f) ug uids names) ->
    let '(uid, k, i, c) := d in
    (u_next ug <= uid)%N /\ serves m' g (u_val ug) uid k (flags_of_info i) c.
Proof. exact cmd_copy_acked. Qed.
Print Assumptions C15_copy_acked.

Theorem C15_move_acked : forall lay m f uids g tmps m',
  Inv m -> f <> g -> NoDup uids ->
  let o := run_cmd lay m (Some (f, false)) (CMove uids g tmps) in
  o_ack o = AOk -> apply_ops lay m (o_ops o) = (m', true) ->
  exists us ug, uidl_at m f us /\ uidl_at m g ug /\
    (NoDup (map r_key (u_recs us)) ->
     forall d, In d (move_delivers us (files_of m f) ug uids tmps) ->
     let '(uid, k, i, c) := d in serves m' g (u_val ug) uid k (flags_of_info i) c).
Proof. exact cmd_move_acked. Qed.
Print Assumptions C15_move_acked.

Theorem C15_store_acked : forall lay m f uids mode letters m',
  Inv m -> NoDup uids ->
  let o := run_cmd lay m (Some (f, false)) (CStore uids mode letters) in
  o_ack o = AOk -> apply_ops lay m (o_ops o) = (m', true) ->
  exists u, uidl_at m f u /\
    (NoDup (map r_key (u_recs u)) ->
     forall uid rec x, In uid uids -> locate u (files_of m f) uid = Some (rec, x) ->
     serves m' f (u_val u) uid (m_key x)
            (flags_of_info (new_info mode letters (m_info x))) (m_cid x)).
Proof. exact cmd_store_acked. Qed.
Print Assumptions C15_store_acked.

Theorem C15_create_acked : forall lay m sel f val guid tmp m',
  let o := run_cmd lay m sel (CCreate f val guid tmp) in
  o_ack o = AOk -> apply_ops lay m (o_ops o) = (m', true) ->
  folder_ok m' f = true
  /\ uidl_at m' f {| u_val := val; u_next := 1; u_guid := guid; u_recs := [] |}.
Proof. exact cmd_create_acked. Qed.
Print Assumptions C15_create_acked.

Theorem C15_subscribe_acked : forall lay m sel n tmp m',
  let o := run_cmd lay m sel (CSubscribe n tmp) in
  apply_ops lay m (o_ops o) = (m', true) ->
  wf_subs (add_name n (recover_subs m)) = true ->
  recover_subs m' = add_name n (recover_subs m).
Proof. exact cmd_subscribe_acked. Qed.
Print Assumptions C15_subscribe_acked.

(* ---- [serves] is what the executable restart view serves *)
Theorem C15_serves_is_recovered : forall m f v uid k fl c,
  Inv m -> folder_ok m f = true -> exists_ m (PCtl f CUidlLock) = false ->
  serves m f v uid k fl c -> view_has (recover_folder m f) v uid k fl c.
Proof. exact serves_recover. Qed.
Print Assumptions C15_serves_is_recovered.

Theorem C15_recovered_is_served : forall m f u nx ms s,
  Inv m -> ready m f = Some u -> recover_folder m f = VServed (Some (u_val u)) nx ms ->
  In s ms -> serves m f (u_val u) (s_uid s) (s_key s) (s_flags s) (s_cid s).
Proof. exact recover_serves. Qed.
Print Assumptions C15_recovered_is_served.

(* ---- the decision procedures evaluated on the real traces are sound *)
Theorem C15_legal_b_sound : forall lay m o, legal_b lay m o = true -> legal lay m o.
Proof. exact legal_b_sound. Qed.
Print Assumptions C15_legal_b_sound.

Theorem C15_inv_b_sound : forall m, inv_b m = true -> Inv m.
Proof. exact inv_b_sound. Qed.
Print Assumptions C15_inv_b_sound.

(* ---- open finding C15-F1: a kill between taking and releasing a lock leaves
   the lock file; a restarted server refuses the folder (NO [TIMEOUT]) although
   a message had been acknowledged; it is served once the lock has expired *)
Theorem C15_refuted_stale_lock :
  Nat.leb ex_first_len 13 = true
  /\ recover_folder (ex_state 13) [] = VLocked
  /\ served_cids (recover_folder (expire_locks (ex_state 13)) []) = [1%N].
Proof. exact stale_lock_witness. Qed.
Print Assumptions C15_refuted_stale_lock.

(* the hypotheses are satisfiable: the example store satisfies the invariant *)
Theorem C15_example_inv : inv_b ex_fs0 = true /\ length ex_ops = 34%nat.
Proof. exact ex_inv. Qed.
Print Assumptions C15_example_inv.

(* ==== round 5: DELETE, external deliveries and the adopting scan in the
   histories (MaildirFS/Delete.v: [xcmd] = XC c (a command of Ops.cmd) |
   XDelete f order | XDeliver f sub key info cid | XScan f tmp ids;
   [run_xcmd], [xhist_ops]; [xlegal_ops_b] = [legal_ops_b] plus the two kinds
   of operation only DELETE performs: rmdir and the unlink of a control file,
   never in the INBOX) *)

(* DELETE performs only legal operations, whatever the state and the order
   in which the directory is walked *)
Theorem C15_delete_legal : forall lay m sel f order,
  xlegal_ops_b lay m (o_ops (run_xcmd lay m sel (XDelete f order))) = true.
Proof. exact delete_legal. Qed.
Print Assumptions C15_delete_legal.

(* every operation of every history over the extended alphabet is legal
   where it is applied (delivery: Maildir-style tmp + link with a fresh key;
   adoption: the rewritten uid list extends the old one) *)
Theorem C15_xhistory_legal : forall lay h m sel,
  Inv m -> xlegal_ops_b lay m (xhist_ops lay m sel h) = true.
Proof. exact xhist_ops_legal. Qed.
Print Assumptions C15_xhistory_legal.

(* control files stay readable at every crash point of every history with
   DELETEs and deliveries: the invariant holds on what a kill leaves *)
Theorem C15_xhistory_control_files_readable : forall lay m sel h k,
  Inv m -> Inv (after_crash lay m (xhist_ops lay m sel h) k).
Proof. exact xhist_crash_inv. Qed.
Print Assumptions C15_xhistory_control_files_readable.

(* a history with deliveries and scans but without DELETE consists of legal
   operations in the original sense: C15_acked_messages_survive,
   C15_uid_never_reassigned, C15_files_never_rewritten, C15_history_reaches_inv
   apply to it unchanged (they are stated for any legal operation list) *)
Theorem C15_delivery_histories_legal : forall lay h m sel,
  Inv m -> forallb no_delete h = true -> legal_ops_b lay m (xhist_ops lay m sel h) = true.
Proof. exact xhist_no_delete_legal. Qed.
Print Assumptions C15_delivery_histories_legal.

(* at every crash prefix of a DELETE f, every path a restarted server looks at
   outside folder f is as before: the other folders, the INBOX, the
   subscriptions *)
Theorem C15_delete_crash_isolated : forall lay m sel f order k q,
  junk q = false -> folder_of q <> f ->
  lookup (after_crash lay m (o_ops (run_xcmd lay m sel (XDelete f order))) k) q = lookup m q.
Proof. exact delete_crash_isolated. Qed.
Print Assumptions C15_delete_crash_isolated.

Theorem C15_delete_crash_others_served : forall lay m sel f order k g v uid key fl c,
  g <> f -> serves m g v uid key fl c ->
  serves (after_crash lay m (o_ops (run_xcmd lay m sel (XDelete f order))) k) g v uid key fl c.
Proof. exact delete_crash_serves_other. Qed.
Print Assumptions C15_delete_crash_others_served.

Theorem C15_delete_keeps_subscriptions : forall lay m sel f order k,
  is_root f = false ->
  recover_subs (after_crash lay m (o_ops (run_xcmd lay m sel (XDelete f order))) k)
  = recover_subs m.
Proof. exact delete_crash_subs. Qed.
Print Assumptions C15_delete_keeps_subscriptions.

(* the half-deleted folder is served consistently or not at all: whatever a
   restarted server serves after a kill inside DELETE was served before, with
   the same UIDVALIDITY, uid, flags and content *)
Theorem C15_delete_crash_consistent : forall lay m sel f order k g v uid key fl c,
  serves (after_crash lay m (o_ops (run_xcmd lay m sel (XDelete f order))) k) g v uid key fl c ->
  serves m g v uid key fl c.
Proof. exact delete_crash_serves_back. Qed.
Print Assumptions C15_delete_crash_consistent.

(* an acknowledged DELETE leaves nothing of the folder a server looks at *)
Theorem C15_delete_acked_gone : forall lay m sel f order m',
  let o := run_xcmd lay m sel (XDelete f order) in
  o_ack o = AOk -> apply_ops lay m (o_ops o) = (m', true) ->
  forall p, junk p = false -> folder_of p = f -> lookup m' p = None.
Proof. exact delete_acked_gone. Qed.
Print Assumptions C15_delete_acked_gone.

(* DELETE f then CREATE f: no file and no uid list of the old folder is left
   to be adopted or read; the new folder has the empty uid list of the freshly
   drawn validity and serves nothing — no uid of the deleted mailbox comes back *)
Theorem C15_delete_then_create_fresh : forall lay m sel f order m1 val guid tmp m2,
  let o1 := run_xcmd lay m sel (XDelete f order) in
  o_ack o1 = AOk -> apply_ops lay m (o_ops o1) = (m1, true) ->
  let o2 := run_cmd lay m1 (o_sel o1) (CCreate f val guid tmp) in
  o_ack o2 = AOk -> apply_ops lay m1 (o_ops o2) = (m2, true) ->
  files_of m1 f = [] /\ read_uidl m1 f = None
  /\ uidl_at m2 f {| u_val := val; u_next := 1; u_guid := guid; u_recs := [] |}
  /\ (forall u, uidl_at m2 f u -> u_val u = val /\ u_recs u = [])
  /\ (forall v uid key fl c, ~ serves m2 f v uid key fl c).
Proof. exact delete_then_create_fresh. Qed.
Print Assumptions C15_delete_then_create_fresh.

(* a file dropped into new/ or cur/ by a delivery agent is adopted by the next
   scan with a uid at or above the list's counter — never a recorded uid —,
   existing records, the validity and the uid discipline are kept *)
Theorem C15_delivery_adopted_fresh : forall u l,
  uids_ok u ->
  let u' := adopt u l in
  u_val u' = u_val u /\ uids_ok u'
  /\ exists extra, u_recs u' = u_recs u ++ extra
     /\ length extra = length l
     /\ (forall r, In r extra -> (u_next u <= r_uid r < u_next u')%N
                                 /\ ~ In (r_uid r) (map r_uid (u_recs u))).
Proof. exact adoption_fresh. Qed.
Print Assumptions C15_delivery_adopted_fresh.

(* ... and that is what a restarted server serves from a folder with files
   awaiting adoption *)
Theorem C15_recover_adopts : forall m f u,
  folder_ok m f = true -> exists_ m (PCtl f CUidlLock) = false -> uidl_at m f u ->
  let unk := unknown_files u (files_of m f) in
  recover_folder m f
  = VServed (Some (u_val u)) (u_next u + N.of_nat (length unk))%N
            (serve (adopt u unk) (files_of m f)).
Proof. exact recover_adopts. Qed.
Print Assumptions C15_recover_adopts.
