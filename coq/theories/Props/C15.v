(* Props/C15.v — Maildir state survives restart and crashes without UID damage.
   Only statements, each closed by [exact] and followed by Print Assumptions.

   Vocabulary (MaildirFS/Spec.v): [serves m f v uid key fl c] — a server
   started on filesystem m serves in folder f, under UIDVALIDITY v, message
   uid from the file with maildir key [key], flag letters fl, content c;
   [legal_ops_b lay m l] — every operation of l is, in the state it is
   applied to, one of the kinds of operation the backend performs (decided by
   MaildirFS/Legal.v and evaluated on every real trace by the correspondence
   run); [after_crash lay m l k] — the filesystem left by a process killed
   after the first k operations of l; [touched l key] — some operation of l
   renames or unlinks the file with that key (STORE, MOVE, EXPUNGE of that
   very message). *)
From PV Require Import Base.Prelude Base.Decimal MaildirFS.FS MaildirFS.UidList MaildirFS.Ops
  MaildirFS.Spec MaildirFS.Legal MaildirFS.Examples
  MaildirFS.UidListProofs MaildirFS.DurabilityProofs MaildirFS.LegalProofs MaildirFS.CrashProofs
  MaildirFS.CommandProofs.

(* a completely written uid list is always readable: parse (print u) = u *)
Theorem C15_uidlist_roundtrip : forall u,
  wf_uidl u = true -> parse_uidl (print_uidl u) = Ok u.
Proof. exact uidl_roundtrip. Qed.
Print Assumptions C15_uidlist_roundtrip.

Theorem C15_subscriptions_roundtrip : forall names,
  wf_subs names = true -> parse_subs (print_subs names) = names.
Proof. exact subs_roundtrip. Qed.
Print Assumptions C15_subscriptions_roundtrip.

(* the decision procedure used on the real traces is sound *)
Theorem C15_legal_b_sound : forall m o, legal_b m o = true -> legal m o.
Proof. exact legal_b_sound. Qed.
Print Assumptions C15_legal_b_sound.

(* control files are never left unreadable, at any crash point: every uid list
   on disk parses to a list whose uids are distinct and below its counter;
   and a maildir key never names two delivered files *)
Theorem C15_control_files_readable : forall lay m l k,
  Inv m -> legal_ops_b lay m l = true -> Inv (after_crash lay m l k).
Proof. exact crash_inv. Qed.
Print Assumptions C15_control_files_readable.

(* every message served before (in particular every acknowledged APPEND /
   COPY / MOVE result and every acknowledged flag change) is served after a
   kill at any point with the same UIDVALIDITY, uid, flags and content, unless
   an executed operation renames or removes that message's own file *)
Theorem C15_acked_messages_survive : forall lay m l k f v uid key fl c,
  legal_ops_b lay m l = true ->
  serves m f v uid key fl c -> ~ touched (crash k l) key ->
  serves (after_crash lay m l k) f v uid key fl c.
Proof. exact crash_serves. Qed.
Print Assumptions C15_acked_messages_survive.

(* no uid is assigned to a different message: between two crash points
   j <= k of one run a folder keeps its UIDVALIDITY, its next-uid counter never
   decreases and exceeds every uid recorded, and a uid recorded at both points
   names the same maildir key *)
Theorem C15_uid_never_reassigned : forall lay m l j k f u u' uid key key',
  Inv m -> legal_ops_b lay m l = true -> (j <= k)%nat ->
  uidl_at (after_crash lay m l j) f u -> uidl_at (after_crash lay m l k) f u' ->
  recorded u uid key -> recorded u' uid key' ->
  key = key' /\ u_val u' = u_val u /\ (u_next u <= u_next u')%N /\ (uid < u_next u)%N.
Proof. exact crash_uid_one_key. Qed.
Print Assumptions C15_uid_never_reassigned.

(* ... and the file a key names is never rewritten by a legal operation *)
Theorem C15_files_never_rewritten : forall lay m o m' f key i c f' i' c',
  Inv m -> legal m o -> apply_op lay m o = Some m' ->
  file_at m f key i c -> file_at m' f' key i' c' -> c = c'.
Proof. exact legal_step_content. Qed.
Print Assumptions C15_files_never_rewritten.

(* ---- the model's APPEND (any number of messages), in every state with a
   readable uid list, fresh distinct keys and printable names *)
(* its operation list is legal: the theorems above apply to it *)
Theorem C15_append_ops_legal : forall lay f s msgs, live s = true -> forall m u,
  lookup m (PCtl f CUidl) = Some (File (Text (print_uidl u))) ->
  wf_uidl u = true -> uids_ok u ->
  (forall a, In a msgs -> key_unused m (a_key a) /\ wf_amsg a = true) ->
  NoDup (map a_key msgs) ->
  legal_ops_b lay m (append_ops f s u msgs) = true.
Proof. exact append_ops_legal. Qed.
Print Assumptions C15_append_ops_legal.

(* an acknowledged APPEND (all its operations done) serves every one of its
   messages under the uid announced for it (next, next+1, ...), with the
   requested system flags and its content *)
Theorem C15_append_acked_served : forall lay f s msgs m u m',
  live s = true ->
  apply_ops lay m (append_ops f s u msgs) = (m', true) ->
  NoDup (map a_key msgs) ->
  lookup m (PCtl f CUidl) = Some (File (Text (print_uidl u))) ->
  wf_uidl u = true -> uids_ok u -> (forall a, In a msgs -> wf_amsg a = true) ->
  forall j a, nth_error msgs j = Some a ->
  serves m' f (u_val u) (u_next u + N.of_nat j)%N (a_key a)
         (flags_of_info (info_of_letters (a_flags a))) (a_cid a).
Proof. exact append_acked_served. Qed.
Print Assumptions C15_append_acked_served.

(* killed after any k of its operations: the invariant holds and everything
   served before, in any folder, is still served identically *)
Theorem C15_append_crash_safe : forall lay f s msgs m u k,
  live s = true -> Inv m ->
  lookup m (PCtl f CUidl) = Some (File (Text (print_uidl u))) ->
  wf_uidl u = true -> uids_ok u ->
  (forall a, In a msgs -> key_unused m (a_key a) /\ wf_amsg a = true) ->
  NoDup (map a_key msgs) ->
  let mk := after_crash lay m (append_ops f s u msgs) k in
  Inv mk /\ (forall g v uid key fl c, serves m g v uid key fl c -> serves mk g v uid key fl c).
Proof. exact append_crash_safe. Qed.
Print Assumptions C15_append_crash_safe.

(* open finding C15-F1: a kill between taking and releasing a lock leaves the
   lock file; a restarted server refuses the folder (NO [TIMEOUT]) although a
   message had been acknowledged; it is served once the lock has expired *)
Theorem C15_refuted_stale_lock :
  Nat.leb ex_first_len 13 = true
  /\ recover_folder (ex_state 13) [] = VLocked
  /\ served_cids (recover_folder (expire_locks (ex_state 13)) []) = [1%N].
Proof. exact stale_lock_witness. Qed.
Print Assumptions C15_refuted_stale_lock.

(* the hypotheses above are satisfiable: the example history is legal *)
Theorem C15_example_legal :
  legal_ops_b LPlus ex_fs0 ex_ops = true /\ length ex_ops = 34%nat.
Proof. exact ex_legal. Qed.
Print Assumptions C15_example_legal.
