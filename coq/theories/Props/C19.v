(* Props/C19.v — ManageSieve: no script access before login; the script store
   is a map.  Statements only; proofs are in Sieve/SieveProofs.v,
   Sieve/FilterSetAgree.v.

   Model: Sieve/FilterSet.v (dict backend FilterSet, hand written) =
   Sieve/FilterSetGen.v (translated from the current source), Sieve/Sieve.v
   (FilterState.run, ManageSieveConnection.run, worlds of several connections
   and users), Sieve/SieveWire.v (command grammar).  [cfg] is the configuration
   (size limit, STARTTLS), [compiles] the Sieve compiler's verdict and [sasl]
   the outcome of an AUTHENTICATE exchange: all three are arbitrary.
   A program is a list of events (connection number, input); [run_tr] lists
   its transitions (world before, event, answer, world after). *)
From PV Require Import Base.Prelude Sieve.PyDict Sieve.FilterSet Sieve.FilterSetGen
  Sieve.FilterSetAgree Sieve.SieveWire Sieve.Sieve Sieve.SieveProofs.
From Coq Require Import Permutation.

(* ------------------------------------------------------------ sieve_gate *)
(* At every transition of every program, from every world: if the acting
   connection is not authenticated then no user's store changes; and unless
   the input is NOOP, LOGOUT, CAPABILITY, STARTTLS or AUTHENTICATE the whole
   world (stores and connections) is unchanged and the answer is a bare NO. *)
Theorem C19_sieve_gate : forall cfg compiles sasl w evs,
  Forall (fun t : trans fstate =>
    let '(wb, (k, i), o, wa) := t in
    forall c, actor fstate wb k = Some c -> c_auth c = None ->
      w_stores fstate wa = w_stores fstate wb
      /\ (acts_unauthenticated i = false ->
          wa = wb /\ exists tx, o = Some (r_no RcNone tx)))
  (run_tr sasl fstate (fstate_run cfg compiles) fs_init w evs).
Proof. intros. apply gate_all_programs. Qed.
Print Assumptions C19_sieve_gate.

(* every script command (HAVESPACE, PUTSCRIPT, LISTSCRIPTS, SETACTIVE,
   GETSCRIPT, DELETESCRIPT, RENAMESCRIPT, CHECKSCRIPT), and also
   UNAUTHENTICATE and unparseable input, falls under the refusal clause *)
Theorem C19_script_commands_gated : forall c conts,
  is_script_cmd c = true -> acts_unauthenticated (InCmd c conts) = false.
Proof. exact script_cmd_not_unauth. Qed.
Print Assumptions C19_script_commands_gated.

(* the only effects an unauthenticated connection can have are on itself:
   LOGOUT closes it, STARTTLS (when offered) withdraws the offer, a successful
   AUTHENTICATE binds it to the user the exchange yields *)
Theorem C19_unauthenticated_effects : forall cfg compiles sasl st c i r st' c',
  c_auth c = None ->
  conn_step sasl fstate (fstate_run cfg compiles) fs_init st c i = (r, st', c') ->
  c' = c
  \/ (exists conts, i = InCmd CLogout conts /\ c' = mk_conn None (c_offer_tls c) true)
  \/ (exists conts, i = InCmd CStartTLS conts /\ c_offer_tls c = true
                    /\ c' = mk_conn None false false)
  \/ (exists m ini conts u f, i = InCmd (CAuthenticate m ini) conts
        /\ sasl m ini conts = AuthOk u f /\ c' = mk_conn (Some u) (c_offer_tls c) false).
Proof. intros cfg compiles sasl. apply unauth_step_conn. Qed.
Print Assumptions C19_unauthenticated_effects.

(* a whole program whose acting connections are all unauthenticated when they
   act (whatever they send, however long) leaves every store untouched *)
Theorem C19_sieve_gate_program : forall cfg compiles sasl evs w,
  Forall (fun t : trans fstate =>
    let '(wb, (k, _), _, _) := t in
    match actor fstate wb k with Some c => c_auth c = None | None => True end)
  (run_tr sasl fstate (fstate_run cfg compiles) fs_init w evs) ->
  w_stores fstate (snd (run sasl fstate (fstate_run cfg compiles) fs_init w evs))
  = w_stores fstate w.
Proof. intros cfg compiles sasl. apply gate_program. Qed.
Print Assumptions C19_sieve_gate_program.

(* -------------------------------------------------------- sieve_refines *)
(* Every program over any number of connections and users, run by the
   implementation model from stores that represent the specification's maps,
   is answered exactly as the specification (a name -> bytes map with an
   optional active name per user) answers it — same condition, code, text
   class and payload, LISTSCRIPTS lines compared as a set — and ends in
   stores that again represent the specification's. *)
Theorem C19_sieve_refines : forall cfg compiles sasl evs st sp cs,
  stores_rel st sp -> Forall (fun ev => input_wf (snd ev) = true) evs ->
  let ri := run sasl fstate (fstate_run cfg compiles) fs_init (mk_world fstate st cs) evs in
  let rs := run sasl sspec (spec_run cfg compiles) spec_init (mk_world sspec sp cs) evs in
  Forall2 out_equiv (fst ri) (fst rs)
  /\ stores_rel (w_stores fstate (snd ri)) (w_stores sspec (snd rs))
  /\ w_conns fstate (snd ri) = w_conns sspec (snd rs).
Proof. intros cfg compiles sasl evs st sp cs. apply world_refines. Qed.
Print Assumptions C19_sieve_refines.

(* the empty stores represent the empty maps *)
Theorem C19_refines_initially : stores_rel [] [].
Proof. intro u. exact refines_init. Qed.
Print Assumptions C19_refines_initially.

(* what arrives through the parser always satisfies input_wf *)
Theorem C19_parsed_input_wf : forall buf conts, input_wf (input_of_bytes buf conts) = true.
Proof. exact input_of_bytes_wf. Qed.
Print Assumptions C19_parsed_input_wf.

(* invariant of all reachable worlds: distinct non-empty names, the active
   name (at most one, by type) is a stored name *)
Theorem C19_sieve_invariant : forall cfg compiles sasl evs w,
  wf_stores (w_stores fstate w) -> Forall (fun ev => input_wf (snd ev) = true) evs ->
  wf_stores (w_stores fstate (snd (run sasl fstate (fstate_run cfg compiles) fs_init w evs))).
Proof. intros cfg compiles sasl. apply wf_all_programs. Qed.
Print Assumptions C19_sieve_invariant.

(* an authenticated connection's command (other than NOOP, LOGOUT, CAPABILITY,
   UNAUTHENTICATE) is FilterState.run on its own user's store *)
Theorem C19_authenticated_step : forall cfg compiles sasl st c u k conts,
  c_auth c = Some u -> store_cmd k = true ->
  conn_step sasl fstate (fstate_run cfg compiles) fs_init st c (InCmd k conts) =
  (fst (fstate_run cfg compiles (get_store fstate fs_init st u) k),
   set_store fstate st u (snd (fstate_run cfg compiles (get_store fstate fs_init st u) k)), c).
Proof. intros cfg compiles sasl. apply auth_step. Qed.
Print Assumptions C19_authenticated_step.

(* ---- the clauses, on any well-formed store *)
(* PUTSCRIPT then GETSCRIPT returns the same bytes; other names and the
   active name are untouched *)
Theorem C19_put_then_get : forall cfg compiles s n v,
  fits cfg (N.of_nat (length v)) = true ->
  exists s1, fstate_run cfg compiles s (CPutScript n v) = (r_ok, s1)
    /\ fstate_run cfg compiles s1 (CGetScript n) = (mk_resp OK RcNone TxNone (PScript v), s1)
    /\ fs_active s1 = fs_active s
    /\ (forall m, m <> n -> dict_get (fs_filters s1) m = dict_get (fs_filters s) m).
Proof. exact put_then_get. Qed.
Print Assumptions C19_put_then_get.

(* ... also when other users' sessions run any program in between and the
   GETSCRIPT comes from another connection of the same user *)
Theorem C19_put_get_interleaved : forall cfg compiles sasl st c1 c2 u n v conts1 conts2 evs cs,
  c_auth c1 = Some u -> c_auth c2 = Some u ->
  fits cfg (N.of_nat (length v)) = true ->
  let istep := conn_step sasl fstate (fstate_run cfg compiles) fs_init in
  let st1 := snd (fst (istep st c1 (InCmd (CPutScript n v) conts1))) in
  let w2 := snd (run sasl fstate (fstate_run cfg compiles) fs_init (mk_world fstate st1 cs) evs) in
  Forall (not_acting_as fstate u)
    (run_tr sasl fstate (fstate_run cfg compiles) fs_init (mk_world fstate st1 cs) evs) ->
  fst (fst (istep st c1 (InCmd (CPutScript n v) conts1))) = r_ok
  /\ fst (fst (istep (w_stores fstate w2) c2 (InCmd (CGetScript n) conts2)))
     = mk_resp OK RcNone TxNone (PScript v).
Proof. intros cfg compiles sasl. apply put_get_interleaved. Qed.
Print Assumptions C19_put_get_interleaved.

(* LISTSCRIPTS lists exactly the stored names, each once, and marks exactly
   the active one *)
Theorem C19_list_exact : forall cfg compiles s, wf_fstate s ->
  exists l, fstate_run cfg compiles s CListScripts = (mk_resp OK RcNone TxNone (PList l), s)
    /\ NoDup (map fst l)
    /\ (forall n, In n (map fst l) <-> dict_get (fs_filters s) n <> None)
    /\ (forall n b, In (n, b) l -> (b = true <-> fs_active s = Some n))
    /\ (forall a, fs_active s = Some a -> In (a, true) l).
Proof. exact list_exact. Qed.
Print Assumptions C19_list_exact.

(* the active script cannot be deleted *)
Theorem C19_delete_active_refused : forall cfg compiles s n,
  wf_fstate s -> fs_active s = Some n ->
  fstate_run cfg compiles s (CDeleteScript n) = (r_no RcActive TxNone, s).
Proof. exact delete_active_refused. Qed.
Print Assumptions C19_delete_active_refused.

(* DELETESCRIPT in full *)
Theorem C19_delete_spec : forall cfg compiles s n, wf_fstate s ->
  match dict_get (fs_filters s) n with
  | None => fstate_run cfg compiles s (CDeleteScript n) = (r_no RcNonexistent TxNone, s)
  | Some _ =>
    if optkey_eqb (Some n) (fs_active s)
    then fstate_run cfg compiles s (CDeleteScript n) = (r_no RcActive TxNone, s)
    else exists s', fstate_run cfg compiles s (CDeleteScript n) = (r_ok, s')
         /\ dict_get (fs_filters s') n = None
         /\ (forall m, m <> n -> dict_get (fs_filters s') m = dict_get (fs_filters s) m)
         /\ fs_active s' = fs_active s
  end.
Proof. exact delete_spec. Qed.
Print Assumptions C19_delete_spec.

(* RENAMESCRIPT keeps content and active status; a missing source or an
   existing target is refused and nothing changes *)
Theorem C19_rename_spec : forall cfg compiles s o n, wf_fstate s ->
  match dict_get (fs_filters s) o, dict_get (fs_filters s) n with
  | None, _ => fstate_run cfg compiles s (CRenameScript o n) = (r_no RcNonexistent TxNone, s)
  | Some _, Some _ =>
    exists r, fstate_run cfg compiles s (CRenameScript o n) = (r, s) /\ r_cond r = NO
  | Some v, None =>
    exists s', fstate_run cfg compiles s (CRenameScript o n) = (r_ok, s')
      /\ dict_get (fs_filters s') n = Some v
      /\ dict_get (fs_filters s') o = None
      /\ (forall m, m <> o -> m <> n -> dict_get (fs_filters s') m = dict_get (fs_filters s) m)
      /\ fs_active s' = (if optkey_eqb (fs_active s) (Some o) then Some n else fs_active s)
  end.
Proof. exact rename_spec. Qed.
Print Assumptions C19_rename_spec.

(* SETACTIVE "" deactivates; SETACTIVE name activates a stored name only *)
Theorem C19_setactive_empty : forall cfg compiles s,
  fstate_run cfg compiles s (CSetActive None) = (r_ok, mk_fstate (fs_filters s) None).
Proof. exact setactive_empty. Qed.
Print Assumptions C19_setactive_empty.

Theorem C19_setactive_spec : forall cfg compiles s n,
  fstate_run cfg compiles s (CSetActive (Some n)) =
  match dict_get (fs_filters s) n with
  | Some _ => (r_ok, mk_fstate (fs_filters s) (Some n))
  | None => (r_no RcNonexistent TxNone, s)
  end.
Proof. exact setactive_spec. Qed.
Print Assumptions C19_setactive_spec.

(* errors change nothing: a step answered NO or BYE leaves every user's
   store as it was *)
Theorem C19_errors_change_nothing : forall cfg compiles sasl st c i,
  let res := conn_step sasl fstate (fstate_run cfg compiles) fs_init st c i in
  r_cond (fst (fst res)) <> OK ->
  forall u, get_store fstate fs_init (snd (fst res)) u = get_store fstate fs_init st u.
Proof. intros cfg compiles sasl st c i. apply conn_step_error_same. Qed.
Print Assumptions C19_errors_change_nothing.

(* ------------------------------------------------------ sieve_isolation *)
(* at every transition of every program: a connection that is not
   authenticated as u2 does not change u2's store *)
Theorem C19_sieve_isolation : forall cfg compiles sasl u2 w evs,
  Forall (fun t : trans fstate =>
    let '(wb, (k, i), o, wa) := t in
    match actor fstate wb k with
    | Some c => c_auth c <> Some u2 ->
        get_store fstate fs_init (w_stores fstate wa) u2
        = get_store fstate fs_init (w_stores fstate wb) u2
    | None => wa = wb
    end)
  (run_tr sasl fstate (fstate_run cfg compiles) fs_init w evs).
Proof. intros. apply isolation_all_programs. Qed.
Print Assumptions C19_sieve_isolation.

(* a whole program in which nobody acts as u2 leaves u2's store as it was *)
Theorem C19_sieve_isolation_program : forall cfg compiles sasl u2 evs w,
  Forall (not_acting_as fstate u2)
    (run_tr sasl fstate (fstate_run cfg compiles) fs_init w evs) ->
  get_store fstate fs_init
    (w_stores fstate (snd (run sasl fstate (fstate_run cfg compiles) fs_init w evs))) u2
  = get_store fstate fs_init (w_stores fstate w) u2.
Proof. intros cfg compiles sasl. apply isolation_program. Qed.
Print Assumptions C19_sieve_isolation_program.

(* and what a connection is answered, and becomes, depends on the stores only
   through the store of the user it is authenticated as: so what u2 observes
   is a function of u2's own store, which others cannot change *)
Theorem C19_observes_own_store : forall cfg compiles sasl st1 st2 c i,
  (forall u, c_auth c = Some u ->
     get_store fstate fs_init st1 u = get_store fstate fs_init st2 u) ->
  let istep := conn_step sasl fstate (fstate_run cfg compiles) fs_init in
  fst (fst (istep st1 c i)) = fst (fst (istep st2 c i))
  /\ snd (istep st1 c i) = snd (istep st2 c i).
Proof. intros cfg compiles sasl. apply step_observes_own_store. Qed.
Print Assumptions C19_observes_own_store.

(* ------------------------------------------- the model is the current code *)
(* the FilterSet translated from pymap/backend/dict/filter.py as it is now
   coincides with the hand-written model the theorems above are about *)
Theorem C19_generated_model_agrees :
  gen_init = fs_init
  /\ (forall s n v, gen_put s n v = fs_put s n v)
  /\ (forall s n, gen_delete s n = fs_delete s n)
  /\ (forall s a b, gen_rename s a b = fs_rename s a b)
  /\ (forall s, gen_clear_active s = fs_clear_active s)
  /\ (forall s n, gen_set_active s n = fs_set_active s n)
  /\ (forall s n, gen_get s n = fs_get s n)
  /\ (forall s, gen_get_active s = fs_get_active s)
  /\ (forall s, gen_get_all s = fs_get_all s).
Proof.
  exact (conj agree_init (conj agree_put (conj agree_delete (conj agree_rename
    (conj agree_clear_active (conj agree_set_active (conj agree_get
    (conj agree_get_active agree_get_all)))))))).
Qed.
Print Assumptions C19_generated_model_agrees.

(* ================= the maildir backend: one script, <user dir>/dovecot.sieve *)
(* The connection layer is the same (it is generic in the store machine), so
   the gate and isolation theorems hold verbatim for it. *)
Theorem C19_maildir_gate : forall cfg compiles sasl w evs,
  Forall (fun t : trans mstate =>
    let '(wb, (k, i), o, wa) := t in
    forall c, actor mstate wb k = Some c -> c_auth c = None ->
      w_stores mstate wa = w_stores mstate wb
      /\ (acts_unauthenticated i = false ->
          wa = wb /\ exists tx, o = Some (r_no RcNone tx)))
  (run_tr sasl mstate (mstate_run cfg compiles) m_init w evs).
Proof. intros. apply gate_all_programs. Qed.
Print Assumptions C19_maildir_gate.

Theorem C19_maildir_isolation : forall cfg compiles sasl u2 w evs,
  Forall (fun t : trans mstate =>
    let '(wb, (k, i), o, wa) := t in
    match actor mstate wb k with
    | Some c => c_auth c <> Some u2 ->
        get_store mstate m_init (w_stores mstate wa) u2
        = get_store mstate m_init (w_stores mstate wb) u2
    | None => wa = wb
    end)
  (run_tr sasl mstate (mstate_run cfg compiles) m_init w evs).
Proof. intros. apply isolation_all_programs. Qed.
Print Assumptions C19_maildir_isolation.

(* every program on the maildir model is answered as the map specification
   restricted to one name answers it ([spec1_run]: only "active" can be bound,
   what is bound is active, no rename, no deactivation) *)
Theorem C19_maildir_refines : forall cfg compiles sasl evs st sp cs,
  mstores_rel st sp -> Forall (fun ev => input_wf (snd ev) = true) evs ->
  let ri := run sasl mstate (mstate_run cfg compiles) m_init (mk_world mstate st cs) evs in
  let rs := run sasl sspec (spec1_run cfg compiles) spec_init (mk_world sspec sp cs) evs in
  Forall2 out_equiv (fst ri) (fst rs)
  /\ mstores_rel (w_stores mstate (snd ri)) (w_stores sspec (snd rs))
  /\ w_conns mstate (snd ri) = w_conns sspec (snd rs).
Proof. intros cfg compiles sasl evs st sp cs. apply mworld_refines. Qed.
Print Assumptions C19_maildir_refines.

Theorem C19_maildir_refines_initially : mstores_rel [] [].
Proof. intro u. exact m_refines_init. Qed.
Print Assumptions C19_maildir_refines_initially.

(* PUTSCRIPT "active" then GETSCRIPT returns the same bytes and LISTSCRIPTS
   lists it as active — for every script within the size limit, the empty one
   included (an existing empty file is not "no script") *)
Theorem C19_maildir_put_then_get : forall cfg compiles s v,
  fits cfg (N.of_nat (length v)) = true ->
  mstate_run cfg compiles s (CPutScript kw_active v) = (r_ok, Some v)
  /\ mstate_run cfg compiles (Some v) (CGetScript kw_active)
     = (mk_resp OK RcNone TxNone (PScript v), Some v)
  /\ mstate_run cfg compiles (Some v) CListScripts
     = (mk_resp OK RcNone TxNone (PList [(kw_active, true)]), Some v).
Proof. exact m_put_then_get. Qed.
Print Assumptions C19_maildir_put_then_get.

(* a script that is not stored is not acknowledged *)
Theorem C19_maildir_put_other_refused : forall cfg compiles s n v,
  n <> kw_active ->
  r_cond (fst (mstate_run cfg compiles s (CPutScript n v))) = NO
  /\ snd (mstate_run cfg compiles s (CPutScript n v)) = s.
Proof. exact m_put_other_refused. Qed.
Print Assumptions C19_maildir_put_other_refused.

Theorem C19_maildir_errors_change_nothing : forall cfg compiles s c,
  r_cond (fst (mstate_run cfg compiles s c)) <> OK -> snd (mstate_run cfg compiles s c) = s.
Proof. exact mstate_run_error_same. Qed.
Print Assumptions C19_maildir_errors_change_nothing.

(* REFUTED on this backend — known finding C19-F2: "the active script cannot be
   deleted".  The one script is listed as ACTIVE and DELETESCRIPT removes it
   (there is no way to deactivate it first: SETACTIVE "" is not supported). *)
Theorem C19_maildir_delete_active_refuted : forall cfg compiles,
  exists s, r_payload (fst (mstate_run cfg compiles s CListScripts)) = PList [(kw_active, true)]
    /\ mstate_run cfg compiles s (CDeleteScript kw_active) = (r_ok, None).
Proof. exact m_delete_active_refuted. Qed.
Print Assumptions C19_maildir_delete_active_refuted.
