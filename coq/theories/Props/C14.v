(* Props/C14.v — No message is lost or half-applied when a command fails midway.
   Only statements, each closed by [exact] and followed by Print Assumptions.

   dict backend (Faults/DictFaults.v): a command is a sequence of storage
   calls; [fault = Some n] makes its (n+1)-th storage call raise; [r_trace]
   lists the store after every storage call (the only states an observer
   could see: a dict-backend command body never suspends, so a cancellation
   or a dropped client lands between two commands — labels LCancel / LDrop).
   maildir backend (MaildirFS): a command is a list of filesystem operations;
   the fault is a kill of the process after any k of them. *)
From PV Require Import Base.Prelude Faults.DictFaults Faults.DictFaultsProofs.
From PV Require Import MaildirFS.FS MaildirFS.UidList MaildirFS.Ops MaildirFS.Spec
  MaildirFS.Legal MaildirFS.Examples MaildirFS.CrashProofs MaildirFS.CommandProofs.
From PV Require Import MaildirFS.Legal Faults.MaildirFaults Faults.MaildirFaultsProofs.

(* ---- dict *)
(* MOVE: at every instant (after each storage call, wherever the fault lands,
   and in the final state) every message content is in the store exactly as
   often as before: a moved message is never lost and never duplicated *)
Theorem C14_move_conserved : forall s src uids dst fault c,
  good s ->
  let r := run_dcmd s (DMove src uids dst) fault in
  forall x, In x (r_store r :: r_trace r) -> count c (cids_of x) = count c (cids_of s).
Proof. exact move_conserved. Qed.
Print Assumptions C14_move_conserved.

(* after a MOVE answered OK the moved uids are gone from the source (so, by
   conservation, each moved message is in the destination only) *)
Theorem C14_move_ok_exactly_one : forall s src uids dst,
  src <> dst ->
  let r := run_dcmd s (DMove src uids dst) None in
  r_resp r = ROk -> forall u, In u uids -> find_msg (msgs_of (r_store r) src) u = None.
Proof. exact move_ok_leaves_source. Qed.
Print Assumptions C14_move_ok_exactly_one.

(* multi-message APPEND: if the command does not end in OK, every mailbox
   holds exactly the messages it held before *)
Theorem multiappend_all_or_nothing : forall s b cids fault,
  good s ->
  let r := run_dcmd s (DAppend b cids) fault in
  r_resp r <> ROk -> forall b2, msgs_of (r_store r) b2 = msgs_of s b2.
Proof. exact DictFaultsProofs.multiappend_all_or_nothing. Qed.
Print Assumptions multiappend_all_or_nothing.

(* ... and without a fault it ends in OK with all its messages, in order *)
Theorem multiappend_ok_all : forall s b cids x,
  get_box s b = Some x ->
  let r := run_dcmd s (DAppend b cids) None in
  r_resp r = ROk /\ map snd (msgs_of (r_store r) b) = map snd (b_msgs x) ++ cids.
Proof. exact DictFaultsProofs.multiappend_ok_all. Qed.
Print Assumptions multiappend_ok_all.

(* a command answered NO or BAD has made no storage call and changed nothing *)
Theorem no_bad_no_effect : forall s c fault,
  let r := run_dcmd s c fault in
  (r_resp r = RNo \/ r_resp r = RBad) -> r_store r = s /\ r_trace r = [].
Proof. exact DictFaultsProofs.no_bad_no_effect. Qed.
Print Assumptions no_bad_no_effect.

(* cancellation and client disconnect do not touch the store *)
Theorem C14_cancel_drop_no_effect : forall s, step s LCancel = s /\ step s LDrop = s.
Proof. exact cancel_drop_no_effect. Qed.
Print Assumptions C14_cancel_drop_no_effect.

(* the well-formedness the theorems assume holds in every reachable state,
   whatever commands and faults led there *)
Theorem C14_reachable_good : forall s ls, good s -> good (fold_left step ls s).
Proof. exact reachable_good. Qed.
Print Assumptions C14_reachable_good.

(* ---- maildir: kill after any k filesystem operations of any history *)
(* the file of a message that no operation of the history unlinks exists, in
   some folder, after a kill at any point: a MOVE (one atomic rename) never
   loses it *)
Theorem move_prefix_conserved : forall lay m sel h k key,
  Inv m ->
  (exists f i c, file_at m f key i c) ->
  (forall o, In o (hist_ops lay m sel h) ->
     forall s f i, o <> OUnlink (PMsg f s key i) \/ live s = false) ->
  exists f i c, file_at (after_crash lay m (hist_ops lay m sel h) k) f key i c.
Proof. exact hist_move_file_conserved. Qed.
Print Assumptions move_prefix_conserved.

(* ... and it is never in two folders at once *)
Theorem move_prefix_exactly_one : forall lay m sel h k key f i c f' i' c',
  Inv m ->
  file_at (after_crash lay m (hist_ops lay m sel h) k) f key i c ->
  file_at (after_crash lay m (hist_ops lay m sel h) k) f' key i' c' ->
  f = f' /\ i = i' /\ c = c'.
Proof. exact hist_move_file_once. Qed.
Print Assumptions move_prefix_exactly_one.

(* an acknowledged MOVE serves every moved message in the destination *)
Theorem C14_move_acked : forall lay m f uids g tmps m',
  Inv m -> f <> g -> NoDup uids ->
  let o := run_cmd lay m (Some (f, false)) (CMove uids g tmps) in
  o_ack o = AOk -> apply_ops lay m (o_ops o) = (m', true) ->
  exists us ug, uidl_at m f us /\ uidl_at m g ug /\
    (NoDup (map UidList.r_key (UidList.u_recs us)) ->
     forall d, In d (move_delivers us (files_of m f) ug uids tmps) ->
     let '(uid, k, i, c) := d in serves m' g (UidList.u_val ug) uid k (flags_of_info i) c).
Proof. exact cmd_move_acked. Qed.
Print Assumptions C14_move_acked.

(* the served view of the MOVE example at every crash point: the message is
   served from exactly one of the two folders *)
Theorem C14_move_example_served_once :
  legal_ops_b LPlus ex_fs1 ex_move_ops = true
  /\ forallb move_conserved_at (seq 0 (S (length ex_move_ops))) = true.
Proof. exact move_example_conserved. Qed.
Print Assumptions C14_move_example_served_once.

(* the maildir MULTIAPPEND loop, any number of messages, killed anywhere: the
   invariant holds at every kill point and no message served before is lost
   or changed *)
Theorem C14_append_crash_safe : forall lay f s msgs m u k,
  live s = true -> Inv m -> uidl_at m f u ->
  (forall a, In a msgs -> key_unused m (a_key a) /\ wf_amsg a = true) ->
  NoDup (map a_key msgs) ->
  let mk := after_crash lay m (append_ops f s u msgs) k in
  Inv mk /\ (forall g v uid key fl c, serves m g v uid key fl c -> serves mk g v uid key fl c).
Proof. exact append_crash_safe. Qed.
Print Assumptions C14_append_crash_safe.

(* open finding C14-F2: the maildir backend stores a multi-message APPEND
   message by message; a kill after the first message is recorded leaves it in
   the mailbox although the command was never acknowledged *)
Theorem C14_refuted_maildir_multiappend_kill :
  Nat.ltb 24 (length ex_ops) = true
  /\ served_cids (recover_folder (ex_state 24) []) = [1%N; 2%N].
Proof. exact multiappend_kill_witness. Qed.
Print Assumptions C14_refuted_maildir_multiappend_kill.

(* ==== maildir: a filesystem operation of a command fails with an OSError
   (ENOSPC / EIO / EACCES) while the server keeps running
   (Faults/MaildirFaults.v: the operations before the fault, then the
   clean-up the code performs on the exception path; the client gets BYE) *)

(* every operation performed — before the fault and on the exception path —
   is of a legal kind where it is applied, for every command, every Inv state
   and every fault position: all C15 theorems about legal runs apply *)
Theorem C14_maildir_fault_legal : forall lay m sel c k fo,
  Inv m -> fault_cmd lay m sel c k = Some fo -> legal_ops_b lay m (f_ops fo) = true.
Proof. exact fault_cmd_legal. Qed.
Print Assumptions C14_maildir_fault_legal.

(* the invariant holds again afterwards: the control files are readable, keys
   unique, names recordable — the continuation starts from an Inv state *)
Theorem C14_maildir_fault_inv : forall lay m sel c k fo,
  Inv m -> fault_cmd lay m sel c k = Some fo -> Inv (fault_state lay m (f_ops fo)).
Proof. exact fault_cmd_inv. Qed.
Print Assumptions C14_maildir_fault_inv.

(* no lock file is left behind (the folder is not wedged for 600 s), for every
   command of the alphabet and every fault position other than the removal of
   the lock file itself *)
Theorem C14_maildir_fault_lock_released : forall lay m sel c k fo,
  Inv m -> (forall p, is_lock p = true -> lookup m p = None) ->
  fault_cmd lay m sel c k = Some fo ->
  snd (apply_ops lay m (f_ops fo)) = true ->
  forall p, is_lock p = true -> lookup (fault_state lay m (f_ops fo)) p = None.
Proof. exact fault_lock_released_all. Qed.
Print Assumptions C14_maildir_fault_lock_released.

(* every command takes and releases lock files in a disciplined way *)
Theorem C14_maildir_lock_discipline : forall lay m sel c,
  brackets (o_ops (run_cmd lay m sel c)) = true.
Proof. exact run_cmd_brackets. Qed.
Print Assumptions C14_maildir_lock_discipline.

(* APPEND of any number of messages whose k-th operation fails inside the
   message loop (not: the removal of a tmp/ name): every delivered message
   file is exactly as before — none of the APPEND's messages is in new/ or
   cur/, so none is served or adopted later: all-or-nothing, and "the command
   did not succeed => mailbox contents unchanged" *)
Theorem C14_maildir_multiappend_fault : forall lay m sel f msgs k fo,
  fault_cmd lay m sel (CAppend f msgs) k = Some fo ->
  rollback_applies lay m sel (CAppend f msgs) k = true ->
  (forall o, nth_error (o_ops (run_cmd lay m sel (CAppend f msgs))) k = Some o ->
             in_add o = false) ->
  snd (apply_ops lay m (f_ops fo)) = true ->
  forall q, is_live q = true -> lookup (fault_state lay m (f_ops fo)) q = lookup m q.
Proof. exact append_fault_nothing_delivered. Qed.
Print Assumptions C14_maildir_multiappend_fault.

(* MOVE (any command): the file of a message the faulted command does not
   unlink exists in some folder afterwards, and in one only *)
Theorem C14_maildir_move_fault_conserved : forall lay m sel c k fo key,
  Inv m -> fault_cmd lay m sel c k = Some fo ->
  (exists f i cid, file_at m f key i cid) ->
  (forall o, In o (f_ops fo) -> forall s f i, o <> OUnlink (PMsg f s key i) \/ live s = false) ->
  exists f i cid, file_at (fault_state lay m (f_ops fo)) f key i cid.
Proof. exact fault_file_conserved. Qed.
Print Assumptions C14_maildir_move_fault_conserved.

Theorem C14_maildir_move_fault_once : forall lay m sel c k fo key f i cid f' i' cid',
  Inv m -> fault_cmd lay m sel c k = Some fo ->
  file_at (fault_state lay m (f_ops fo)) f key i cid ->
  file_at (fault_state lay m (f_ops fo)) f' key i' cid' ->
  f = f' /\ i = i' /\ cid = cid'.
Proof. exact fault_file_once. Qed.
Print Assumptions C14_maildir_move_fault_once.

(* the served view of a concrete faulted two-message APPEND at each of its 22
   positions: the old message only, except at the two failing tmp/ removals *)
Theorem C14_maildir_fault_example :
  map exf_view (seq 0 22) =
  [Some [1%N]; None; Some [1%N]; Some [1%N]; Some [1%N]; Some [1%N]; Some [1%N; 2%N];
   Some [1%N]; Some [1%N]; Some [1%N]; Some [1%N]; None; Some [1%N]; Some [1%N]; Some [1%N];
   Some [1%N]; Some [1%N; 3%N]; Some [1%N]; Some [1%N]; Some [1%N]; Some [1%N]; None].
Proof. exact fault_example_views. Qed.
Print Assumptions C14_maildir_fault_example.

(* open finding C14-F4: when the removal of the tmp/ name fails after the link,
   stdlib Maildir.add re-raises without the key; APPEND answers BYE, yet the
   message is adopted by the next scan *)
Theorem C14_maildir_no_means_unchanged_refuted :
  (match fault_cmd LPlus exf_m None exf_cmd 6 with
   | Some fo => fresp_eqb (f_resp fo) FBye | None => false end) = true
  /\ nth_error (o_ops (run_cmd LPlus exf_m None exf_cmd)) 6
     = Some (OUnlink (PMsg [] STmp [107%N; 50%N] []))
  /\ exf_view 6 = Some [1%N; 2%N].
Proof. exact fault_unlink_tmp_witness. Qed.
Print Assumptions C14_maildir_no_means_unchanged_refuted.
