(* Props/C04.v — UIDs are strictly increasing, never reused, and truthfully
   reported.  Model: UidRecent/Model.v (dict backend; maildir through
   [init_cfg 0 false]).  A mailbox is identified by its object ([bid] = its
   UIDVALIDITY/MAILBOXID).  Histories are arbitrary lists of operations by any
   number of connections with arbitrary environment choices ([run]).
   Only statements, each closed by [exact] and followed by Print Assumptions. *)
From PV Require Import Base.Prelude Wire.SeqSet.
From PV Require Import UidRecent.Model UidRecent.MapLemmas UidRecent.UidProofs
  UidRecent.RecentInv UidRecent.UidTheorems UidRecent.Witness
  UidRecent.Maildir UidRecent.MaildirProofs.

Local Open Scope N_scope.

(* Inv_uid holds in every reachable state: in every mailbox the log of all
   UIDs ever assigned is strictly increasing (so duplicate-free), within
   (0, counter], the live messages are strictly increasing and each is
   logged with its content. *)
Theorem C04_inv_uid_reachable : forall base shared (tr : list (op * choice)),
  Inv_uid (run (init_cfg base shared) tr).
Proof. exact inv_uid_reachable. Qed.
Print Assumptions C04_inv_uid_reachable.

(* Any operation (APPEND, COPY, MOVE, EXPUNGE, RENAME, ... by anyone, with any
   choice of the environment) extends a mailbox's assignment log only at the
   end, by UIDs greater than every UID assigned there before, expunged or not. *)
Theorem C04_uids_strictly_increasing : forall base shared tr o ch i b,
  let st := run (init_cfg base shared) tr in
  lookup i (boxes st) = Some b ->
  exists b' ext,
    lookup i (boxes (fst (step st o ch))) = Some b' /\
    b_log b' = b_log b ++ ext /\
    asc (map fst (b_log b')) /\
    Forall (fun e => forall e0, In e0 (b_log b) -> fst e0 < fst e) ext.
Proof. exact uids_strictly_increasing. Qed.
Print Assumptions C04_uids_strictly_increasing.

(* A (mailbox identity, UID) pair never denotes two different messages, at
   any two points of any history. *)
Theorem C04_uid_never_reused : forall base shared tr1 tr2 i b1 b2 u m1 m2,
  let st1 := run (init_cfg base shared) tr1 in
  let st2 := run st1 tr2 in
  lookup i (boxes st1) = Some b1 -> lookup i (boxes st2) = Some b2 ->
  In (u, m1) (b_log b1) -> In (u, m2) (b_log b2) -> m1 = m2.
Proof. exact uid_never_reused. Qed.
Print Assumptions C04_uid_never_reused.

(* What UID FETCH finds under a UID is the logged content, and only one
   message carries that UID. *)
Theorem C04_fetch_finds_logged : forall base shared tr i b m,
  lookup i (boxes (run (init_cfg base shared) tr)) = Some b -> In m (b_msgs b) ->
  In (m_uid m, m_mark m) (b_log b) /\
  forall m', In m' (b_msgs b) -> m_uid m' = m_uid m -> m' = m.
Proof. exact fetch_finds_logged. Qed.
Print Assumptions C04_fetch_finds_logged.

(* UIDNEXT of SELECT/EXAMINE/STATUS: above every existing and every formerly
   assigned UID; every UID assigned later in that mailbox is >= it. *)
Theorem C04_uidnext_bounds : forall base shared tr o ch i n,
  let st := run (init_cfg base shared) tr in
  reported_uidnext (snd (step st o ch)) = Some (i, n) ->
  exists b, lookup i (boxes st) = Some b /\ n = b_max b + 1 /\
    (forall m, In m (b_msgs b) -> m_uid m < n) /\
    (forall e, In e (b_log b) -> fst e < n) /\
    forall tr' b', lookup i (boxes (run (fst (step st o ch)) tr')) = Some b' ->
      forall e, In e (b_log b') -> In e (b_log b) \/ n <= fst e.
Proof. exact uidnext_bounds. Qed.
Print Assumptions C04_uidnext_bounds.

(* RENAME carries counter, log, messages and identity to the new name;
   renaming INBOX leaves a fresh empty INBOX with a new identity. *)
Theorem C04_rename_carries : forall st s a b ch i bx,
  full st -> b <> INBOX -> find_box st a = Some (i, bx) -> in_tree st b = false ->
  (forall ca, name_sub a = Some ca -> has_name st ca = false) ->
  let st' := fst (step st (Rename s a b) ch) in
  find_box st' b = Some (i, bx) /\
  (a <> INBOX -> find_box st' a = None) /\
  (a = INBOX -> find_box st' INBOX = Some (next_bid st, empty_box (cfg_base st)) /\
                next_bid st <> i).
Proof. exact rename_carries. Qed.
Print Assumptions C04_rename_carries.

(* bytes(SequenceSet.build(l)) for a strictly ascending list of positive
   numbers parses back and expands, in order, to l. *)
Theorem C04_uidset_expands : forall l mx,
  l <> [] -> asc l -> Forall (fun x => 0 < x <= mx) l ->
  client_expand (uidset_bytes l) mx = Some l.
Proof. exact uidset_expands. Qed.
Print Assumptions C04_uidset_expands.

(* APPENDUID: the printed set, expanded by a client, is the list of UIDs
   assigned, message by message; each content is logged under its UID. *)
Theorem C04_appenduid_truth : forall st s nm ms ch st' i bytes p b,
  full st -> ms <> [] ->
  step st (Append s nm ms) ch = (st', OAppend i bytes p) ->
  lookup i (boxes st) = Some b ->
  exists us b',
    lookup i (boxes st') = Some b' /\
    length us = length ms /\
    b_log b' = b_log b ++ combine us (marks ms) /\
    client_expand bytes (b_max b') = Some us.
Proof. exact appenduid_truth. Qed.
Print Assumptions C04_appenduid_truth.

(* COPYUID of UID COPY / UID MOVE: the two printed sets expand to the first
   and second components of the actual (source, destination) pairs, in the
   order of copying; destinations are fresh in the destination mailbox and
   each pair's content is logged under both UIDs. *)
Theorem C04_copyuid_pairs : forall st s set nm ch (mv : bool) st' j a b p bd,
  full st ->
  step st (if mv then Move s set nm else Copy s set nm) ch = (st', OCopy (Some (j, a, b)) p) ->
  lookup j (boxes st) = Some bd ->
  exists sl i ps mks bd',
    resolve st s = RBox sl i (match lookup i (boxes st) with Some x => x | None => bd end) /\
    ps <> [] /\ length mks = length ps /\
    lookup j (boxes st') = Some bd' /\
    b_log bd' = b_log bd ++ combine (map snd ps) mks /\
    Forall (fun u => b_max bd < u) (map snd ps) /\
    (forall mxa, Forall (fun u => u <= mxa) (map fst ps) ->
                 client_expand a mxa = Some (map fst ps)) /\
    client_expand b (b_max bd') = Some (map snd ps) /\
    (forall su mk, In (su, mk) (combine (map fst ps) mks) ->
       exists bs, lookup i (boxes st') = Some bs /\ In (su, mk) (b_log bs)).
Proof. exact copyuid_pairs. Qed.
Print Assumptions C04_copyuid_pairs.

(* [full] is not an assumption about the code: every reachable state has it. *)
Theorem C04_full_reachable : forall base shared (tr : list (op * choice)),
  full (run (init_cfg base shared) tr).
Proof. exact full_reachable. Qed.
Print Assumptions C04_full_reachable.

(* a non-trivial execution: expunge the highest UID, append (no reuse),
   COPY 104,101 into a renamed mailbox (pairs 101->101, 104->102) *)
Theorem C04_witness : outs w_uids =
  [ OAppend 0 [49; 48; 49; 58; 49; 48; 51] PNone;
    OSelect 0 false 3 3 104;
    OOk (PSync (mkSync 1 None (Some 2)));
    OAppend 0 [49; 48; 52] (PSync (mkSync 0 (Some 3) (Some 3)));
    OOk (PSync (mkSync 0 None None));
    OOk PNone;
    OCopy (Some (1, [49; 48; 49; 44; 49; 48; 52], [49; 48; 49; 58; 49; 48; 50]))
          (PSync (mkSync 0 None None));
    OStatus 1 2 2 103 (PSync (mkSync 0 None None));
    OFetch (PSync (mkSync 0 None None))
           [(101, true, false, 1); (102, true, false, 2); (104, true, false, 4)] ].
Proof. exact w_uids_outs. Qed.
Print Assumptions C04_witness.

(* DELETE then CREATE of the same name: the name denotes nothing in between,
   then a mailbox whose identity differs from every mailbox that ever existed
   (fresh UIDVALIDITY draw), with an empty log and the base counter: UIDs
   restart, but under another identity; existing mailbox objects are
   untouched.  All theorems above are per identity. *)
Theorem C04_recreate_is_fresh : forall st s s' nm ch ch' i,
  full st -> nm <> INBOX -> lookup nm (names st) = Some i ->
  let st1 := fst (step st (Delete s nm) ch) in
  let st2 := fst (step st1 (Create s' nm) ch') in
  find_box st1 nm = None /\
  find_box st2 nm = Some (next_bid st, empty_box (cfg_base st)) /\
  (forall j b, In (j, b) (boxes st) -> j <> next_bid st /\ lookup j (boxes st2) = lookup j (boxes st)).
Proof. exact recreate_is_fresh. Qed.
Print Assumptions C04_recreate_is_fresh.

(* fixed finding C04-F1: the connection whose INBOX was renamed away by
   someone else is answered NO, then BYE; it is never served the new INBOX *)
Theorem C04_stale_selection_witness :
  skipn 3 (outs w_stale) =
  [ OOk PNone; OAppend 1 [49; 48; 49] PNone; ONo; ONo; OStatus 1 1 1 102 PBye ].
Proof. exact w_stale_outs. Qed.
Print Assumptions C04_stale_selection_witness.

(* DELETE/CREATE, backend-read-only mailbox, sequence-number COPY, files
   adopted by a maildir reset: a concrete execution *)
Theorem C04_more_witness : outs w_more =
  [ OOk PNone; OAppend 1 [49; 48; 49; 58; 49; 48; 50] PNone; OOk PNone; OOk PNone;
    OAppend 2 [49; 48; 49] PNone; OStatus 2 1 1 102 PNone;
    OOk PNone; ONo; OSelect 2 true 1 1 102;
    OCopy (Some (0, [49; 48; 49], [49; 48; 49])) (PSync (mkSync 0 None None)); ONo;
    OOk PNone; OSelect 0 false 3 2 104;
    OFetch (PSync (mkSync 0 None None))
           [(101, true, false, 3); (102, true, false, 7); (103, false, true, 8)] ].
Proof. exact w_more_outs. Qed.
Print Assumptions C04_more_witness.

(* ------------------------------------------------------------- maildir
   The maildir folder state (uidlist with its persisted next_uid, files in
   new/ and cur/) refines the model's mailbox through [abs]; with the label
   [Adopt] (files without a record are adopted by the next reset) every
   theorem above holds for the maildir instance [init_cfg 0 false]. *)
Theorem C04_maildir_inv_uid_reachable : forall (tr : list (op * choice)),
  Inv_uid (run (init_cfg 0 false) tr).
Proof. exact (inv_uid_reachable 0 false). Qed.
Print Assumptions C04_maildir_inv_uid_reachable.

Theorem C04_maildir_uidnext_bounds : forall tr o ch i n,
  let st := run (init_cfg 0 false) tr in
  reported_uidnext (snd (step st o ch)) = Some (i, n) ->
  exists b, lookup i (boxes st) = Some b /\ n = b_max b + 1 /\
    (forall m, In m (b_msgs b) -> m_uid m < n) /\
    (forall e, In e (b_log b) -> fst e < n) /\
    forall tr' b', lookup i (boxes (run (fst (step st o ch)) tr')) = Some b' ->
      forall e, In e (b_log b') -> In e (b_log b) \/ n <= fst e.
Proof. exact (uidnext_bounds 0 false). Qed.
Print Assumptions C04_maildir_uidnext_bounds.

(* an externally delivered file is invisible to IMAP until a reset adopts it *)
Theorem C04_maildir_external_invisible : forall d f,
  ~ In (f_key f) (map snd (d_recs d)) -> abs (md_add_file f d) = abs d.
Proof. exact abs_external. Qed.
Print Assumptions C04_maildir_external_invisible.

(* writing the file and then the uidlist record is the model's delivery *)
Theorem C04_maildir_append_refines : forall d f,
  1 <= d_next d -> ~ In (f_key f) (map f_key (d_files d)) ->
  ~ In (f_key f) (map snd (d_recs d)) ->
  abs (md_append f d) = box_add (abs d) (f_new f) (f_deleted f) (f_mark f).
Proof. exact abs_append. Qed.
Print Assumptions C04_maildir_append_refines.

(* reset(): every unknown file, in listing order, is one delivery with the
   next UID (stored recent iff it lies in new/) *)
Theorem C04_maildir_reset_refines : forall d,
  1 <= d_next d -> NoDup (map f_key (d_files d)) ->
  abs (md_reset d) =
  fold_left (fun b f => box_add b (f_new f) (f_deleted f) (f_mark f)) (unknown d) (abs d).
Proof. exact abs_reset. Qed.
Print Assumptions C04_maildir_reset_refines.

Theorem C04_maildir_adopt_is_box_add : forall i rc dl mk st b,
  lookup i (boxes st) = Some b ->
  lookup i (boxes (adopt_one i rc dl mk st)) = Some (box_add b rc dl mk).
Proof. exact adopt_one_is_box_add. Qed.
Print Assumptions C04_maildir_adopt_is_box_add.

(* UIDNEXT is the persisted counter *)
Theorem C04_maildir_uidnext_is_counter : forall d, 1 <= d_next d -> d_next d = b_max (abs d) + 1.
Proof. exact uidnext_is_counter. Qed.
Print Assumptions C04_maildir_uidnext_is_counter.
