(* Props/C02.v — Cross-session convergence: no lost, phantom or stuck updates.
   Statements only; proofs in Store/*Proofs.v. *)
From PV Require Import Base.Prelude Store.Base Store.BaseProofs Store.Flags Store.ModSeq
     Store.ModSeqProofs Store.Mailbox Store.MailboxProofs Store.View Store.ViewProofs
     Store.Compare Store.CompareProofs Store.Session Store.SelProofs Store.System
     Store.SystemProofs Store.StoreExamples Store.FlagsTruth Store.ClientFlags Store.SystemNs
     Store.SystemNsProofs Wire.SeqSet.

(* _ModSequenceMapping.update/expunge: the log stays well-formed; afterwards the
   given uids have their last record at the new mod-seq (update or expunge), every
   other uid keeps its last record *)
Theorem C02_log_set : forall which uids log,
  LogInv log -> NoDup uids ->
  let log' := ms_set which uids log in
  LogInv log'
  /\ ms_highest log' = (ms_highest log + 1)%N
  /\ (forall u, In u uids -> log_last log' u = Some ((ms_highest log + 1)%N, which))
  /\ (forall u, ~ In u uids -> log_last log' u = log_last log u).
Proof. exact ms_set_spec. Qed.
Print Assumptions C02_log_set.

(* log completeness: find_updated(m) returns every uid whose last record (update or
   expunge) is at or after m — nothing changed or expunged since m is lost *)
Theorem C02_log_complete : forall log m u q k,
  LogInv log -> log_last log u = Some (q, k) -> (m <= q)%N ->
  In u (fst (ms_find_updated m log)) \/ In u (snd (ms_find_updated m log)).
Proof. exact log_complete. Qed.
Print Assumptions C02_log_complete.

(* ... exactly: updated = last record is an update at >= m, expunged likewise *)
Theorem C02_find_updated_exact : forall m log u, LogInv log ->
  (In u (fst (ms_find_updated m log)) <-> exists q, log_last log u = Some (q, true) /\ (m <= q)%N)
  /\ (In u (snd (ms_find_updated m log)) <-> exists q, log_last log u = Some (q, false) /\ (m <= q)%N).
Proof. exact find_updated_spec. Qed.
Print Assumptions C02_find_updated_exact.

(* every mailbox of every reachable state satisfies the mailbox invariant (log
   well-formed; a uid exists iff its last record is an update; it has been removed
   iff its last record is an expunge) *)
Theorem C02_boxes_wellformed : forall ls n b,
  aget n (sy_boxes (exec sys_empty ls)) = Some b -> BoxInv b.
Proof. exact boxes_wellformed. Qed.
Print Assumptions C02_boxes_wellformed.

(* expunge records are sticky: whatever any session does later (including STORE on
   the expunged message), the last record of an expunged uid stays an expunge *)
Theorem C02_expunge_sticky : forall ls ls' n b u q,
  let sy := exec sys_empty ls in
  aget n (sy_boxes sy) = Some b -> log_last (mb_log b) u = Some (q, false) ->
  exists b' q', aget n (sy_boxes (exec sy ls')) = Some b'
                /\ log_last (mb_log b') u = Some (q', false) /\ (q <= q')%N.
Proof. exact reachable_expunge_sticky. Qed.
Print Assumptions C02_expunge_sticky.

(* the code as it was before fix 5ba4819 (finding C02-F1) refutes it: updating an
   expunged uid erases the expunge record and breaks the mailbox invariant *)
Theorem C02_unguarded_update_refuted :
  exists b u, BoxInv b /\ known b u /\ ~ In u (mb_uids b)
    /\ In u (snd (ms_find_updated 1 (mb_log b)))
    /\ exists b' m, mb_update_unguarded u FAdd [5%N] b = Some (b', m, true)
         /\ ~ In u (snd (ms_find_updated 1 (mb_log b')))
         /\ ~ In u (mb_uids b')
         /\ ~ BoxInv b'.
Proof. exact unguarded_update_refuted. Qed.
Print Assumptions C02_unguarded_update_refuted.

(* convergence: in every reachable state, for every session with a selected mailbox
   that is not idling, after NOOP or CHECK the session's list of messages is exactly
   the list of uids in the mailbox, nothing is pending, and the flags the session has
   synchronized (_flags_key_map, what its FETCH updates are computed against) are the
   stored flags of every message *)
Theorem C02_converges : forall ls me s c,
  let sy := exec sys_empty ls in
  sel_of sy me = Some s -> ss_idle (sess_of sy me) = false -> c = CNoop \/ c = CCheck ->
  let sy' := fst (step sy (Cmd me c)) in
  exists s' b', sel_of sy' me = Some s' /\ aget (sel_box s') (sy_boxes sy') = Some b'
    /\ sy_boxes sy' = sy_boxes sy
    /\ v_sorted (sel_view s') = mb_uids b'
    /\ v_pending (sel_view s') = []
    /\ (forall u m, mb_alive u b' = Some m -> aget u (v_fkeys (sel_view s')) = Some (m_flags m)).
Proof. exact reachable_converges. Qed.
Print Assumptions C02_converges.

(* the same for a session selected on a maildir mailbox (mb_md = true), where NOOP/CHECK is
   the full rescan: the list and the flags are those of the files, whatever happened before *)
Theorem C02_maildir_converges : forall ls me s b c,
  let sy := exec sys_empty ls in
  sel_of sy me = Some s -> aget (sel_box s) (sy_boxes sy) = Some b -> mb_md b = true ->
  ss_idle (sess_of sy me) = false -> c = CNoop \/ c = CCheck ->
  let sy' := fst (step sy (Cmd me c)) in
  exists s', sel_of sy' me = Some s' /\ aget (sel_box s') (sy_boxes sy') = Some b
    /\ v_sorted (sel_view s') = mb_uids b
    /\ v_pending (sel_view s') = []
    /\ (forall u m, mb_alive u b = Some m -> aget u (v_fkeys (sel_view s')) = Some (m_flags m)).
Proof. exact maildir_converges. Qed.
Print Assumptions C02_maildir_converges.

(* ... and the client holds that list (C01) *)
Theorem C02_client_converges : forall ls,
  exists cls, shadow_exec (sys_empty, fun _ => None) ls = Some (exec sys_empty ls, cls)
              /\ forall s, cls s = view_of (exec sys_empty ls) s.
Proof. exact clients_in_sync. Qed.
Print Assumptions C02_client_converges.

(* no message that still exists is reported expunged: in every reachable state an
   existing message whose last change the session has consumed is in the session's
   list, and nothing that exists waits in _pending_remove *)
Theorem C02_no_false_expunge : forall ls me s,
  let sy := exec sys_empty ls in
  sel_of sy me = Some s ->
  exists b, aget (sel_box s) (sy_boxes sy) = Some b
    /\ (mb_md b = false -> exists mq, sel_modseq s = Some mq
          /\ (forall u q, log_last (mb_log b) u = Some (q, true) -> (q <= mq)%N ->
                          In u (v_sorted (sel_view s))))
    /\ (forall u, In u (v_pending (sel_view s)) -> ~ In u (mb_uids b))
    /\ (forall u, In u (v_sorted (sel_view s)) -> known b u).
Proof. exact reachable_no_false_expunge. Qed.
Print Assumptions C02_no_false_expunge.

(* flags, client side.  (1) Every FETCH response written while answering a command —
   the command's own results, the updates computed by fork(), merged or not — carries,
   for a message that exists when the command ends, exactly the flags stored for it
   (plus \Recent according to one recent set [rc]): a client is never told stale or
   foreign flags. *)
Theorem C02_fetch_tells_stored_flags : forall ls me c,
  let sy := exec sys_empty ls in
  ss_idle (sess_of sy me) = false ->
  forall s1 b1, sel_of (fst (step sy (Cmd me c))) me = Some s1 ->
  aget (sel_box s1) (sy_boxes (fst (step sy (Cmd me c)))) = Some b1 ->
  exists rc, Forall (fetch_truthful b1 rc) (snd (step sy (Cmd me c))).
Proof. exact reachable_fetch_truthful. Qed.
Print Assumptions C02_fetch_tells_stored_flags.

(* (2) _compare sends a FETCH for every message whose synchronized flags differ from the
   previous snapshot unless that exact result was silenced by the session's own
   STORE.SILENT (the pure core of the next two statements). *)
Theorem C02_compare_reports_flags :
  forall cached before after hide silenced recent with_uid u f,
  In (u, f) (fz_flags after) -> uf_mem (u, f) (fz_flags before) = false ->
  uf_mem (u, f) silenced = false ->
  exists r, In r (compare cached before after hide silenced recent with_uid)
            /\ (r = Bug \/ exists n fl sh, r = Fetch n u fl sh).
Proof. exact compare_reports_flags. Qed.
Print Assumptions C02_compare_reports_flags.

(* (3) the client's belief (System.cfs_exec): per connection, the flag list of the last
   FETCH response read for a message, and the client's own arithmetic for its successful
   STORE.SILENT commands (computed from its own message list).  For every history of any
   number of sessions on either backend: whenever a client believes something about a
   message of its view that exists, it is — as a set, \Recent aside — what its session
   has synchronized (_flags_key_map). *)
Theorem C02_client_flags_sound : forall ls me s b u f,
  let st := cfs_exec cfs_start ls in
  sel_of (fst st) me = Some s -> aget (sel_box s) (sy_boxes (fst st)) = Some b ->
  aget u (snd st me) = Some f -> In u (v_sorted (sel_view s)) -> mb_alive u b <> None ->
  exists k, aget u (v_fkeys (sel_view s)) = Some k /\ fl_equiv f k.
Proof. exact client_flags_sound. Qed.
Print Assumptions C02_client_flags_sound.

(* ... hence: after NOOP (or CHECK) in any reachable state, the client's message list is
   the mailbox's and the client's flags of every message equal the stored flags (as sets,
   \Recent aside, which is per session and not stored) *)
Theorem C02_flag_change_reported : forall ls me c,
  let st := cfs_exec cfs_start ls in
  sel_of (fst st) me <> None -> ss_idle (sess_of (fst st) me) = false ->
  c = CNoop \/ c = CCheck ->
  let st' := cfs_step st (Cmd me c) in
  exists s' b', sel_of (fst st') me = Some s' /\ aget (sel_box s') (sy_boxes (fst st')) = Some b'
    /\ v_sorted (sel_view s') = mb_uids b'
    /\ forall u m f, mb_alive u b' = Some m -> aget u (snd st' me) = Some f -> fl_equiv f (m_flags m).
Proof. exact client_flags_converge. Qed.
Print Assumptions C02_flag_change_reported.

(* the maildir backend: the theorems above quantify over label sequences that may create
   maildir mailboxes (CreateMaildir); this is the three-session example on a maildir INBOX,
   evaluated by the kernel (views converge, the shadow client follows) *)
Theorem C02_example_maildir :
  let sy := exec sys_empty md_trace in
  view_of sy 1%N = Some [2; 3; 5]%N /\ view_of sy 2%N = Some [2; 3; 5]%N
  /\ view_of sy 3%N = Some [2; 3; 5]%N
  /\ option_map mb_uids (aget 1%N (sy_boxes sy)) = Some [2; 3; 5]%N
  /\ match shadow_exec (sys_empty, fun _ => None) md_trace with
     | Some (_, cls) => cls 3%N = Some [2; 3; 5]%N
     | None => False
     end.
Proof. exact md_views. Qed.
Print Assumptions C02_example_maildir.

(* non-vacuity: the three-session example trace converges *)
Theorem C02_example_trace :
  let sy := exec sys_empty demo_trace in
  view_of sy 1%N = Some [102; 103; 105]%N /\ view_of sy 2%N = Some [102; 103; 105]%N
  /\ view_of sy 3%N = Some [102; 103; 105]%N
  /\ option_map mb_uids (aget 1%N (sy_boxes sy)) = Some [102; 103; 105]%N.
Proof. exact demo_views. Qed.
Print Assumptions C02_example_trace.

(* convergence with mailbox CREATE / DELETE / RENAME in the histories (Store/SystemNs.v): in
   every reachable state, for every open, non-idling connection with a selection, NOOP or
   CHECK either finds the selection stale — the name it selected no longer denotes the
   mailbox object it selected — and answers NO [NONEXISTENT] without changing anything (the
   connection is told; it does not go on reporting a deleted mailbox's messages as existing),
   or the connection's message list becomes the uid list of the mailbox object that the name
   it selected denotes *now*, nothing pending, synchronized flags = stored flags *)
Theorem C02_converges_ns : forall ls s x c,
  let ns := nexec ns_empty ls in
  sel_of (ns_sys ns) s = Some x -> nmem s (ns_closed ns) = false ->
  ss_idle (sess_of (ns_sys ns) s) = false -> c = CNoop \/ c = CCheck ->
  if stale ns s
  then nstep ns (NOld (Cmd s c)) = (ns, [R (Tagged NO CNonexistent)])
  else
    let ns' := fst (nstep ns (NOld (Cmd s c))) in
    exists n s' b', aget s (ns_look ns') = Some n /\ aget n (ns_names ns') = Some (sel_box s')
      /\ sel_of (ns_sys ns') s = Some s'
      /\ aget (sel_box s') (sy_boxes (ns_sys ns')) = Some b'
      /\ v_sorted (sel_view s') = mb_uids b'
      /\ v_pending (sel_view s') = []
      /\ (forall u m, mb_alive u b' = Some m -> aget u (v_fkeys (sel_view s')) = Some (m_flags m)).
Proof. exact ns_converges. Qed.
Print Assumptions C02_converges_ns.

(* ... and the connection's client holds that list, or nothing after BYE (the shadow
   clients of the namespace system, = C01_clients_in_sync_ns) *)
Theorem C02_client_converges_ns : forall ls,
  exists cls, nshadow_exec (ns_empty, fun _ => None) ls = Some (nexec ns_empty ls, cls)
              /\ forall s, cls s = nview (nexec ns_empty ls) s.
Proof. exact ns_clients_in_sync. Qed.
Print Assumptions C02_client_converges_ns.
