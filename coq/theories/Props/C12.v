(* Props/C12.v — a read-only selection never changes the mailbox.
   Statements only; proofs in RefModel/C12Proofs.v.  The model is
   RefModel/Model.v (one session's commands as pymap executes them, and labels
   [LExt] for what OTHER connections do in between: change flags, deliver, expunge).
   "Persistent state" is [st_boxes]: for every mailbox its messages in order
   with UID, flags (so also an implicit \Seen), internal date, content id and
   the STORED \Recent mark (what the next read-write session will be given),
   its UID counter, UIDVALIDITY, read-only bit and permitted flags.
   All theorems hold for EVERY state whose UIDs lie below the UID counters ([wfb]):
   the session's cached view is not assumed to be in sync with the mailbox. *)
From PV Require Import Base.Prelude Wire.SeqSet RefModel.Flags RefModel.Model
  RefModel.BoxLemmas RefModel.C12Proofs.

(* C12 with any number of other sessions: starting with no read-write selection (a
   mailbox is selected read-only — by EXAMINE or because the backend declares it
   read-only — or, later in the program, nothing is selected any more), after ANY
   program of message commands (every command and UID variant, NOOP, CHECK, STATUS,
   SEARCH, any arguments; no SELECT/EXAMINE, which would end the selection, and no
   CREATE/DELETE/RENAME, which are not about messages) interleaved with ANY changes
   made by other connections, and whose APPEND/COPY/MOVE destinations are read-only or
   missing, the persistent state of every mailbox is exactly what the other
   connections' changes alone produce: the session contributed nothing *)
Theorem C12 : forall prog st,
  no_rw st -> wfb (st_boxes st) -> Forall msg_cmd (lcmds prog) ->
  NoDup (map fst (st_boxes st)) ->
  (forall n, In n (dests (lcmds prog)) -> not_writable (st_boxes st) n) ->
  st_boxes (fst (run_l st prog)) = fold_left (ext_boxes (st_bk st)) (lexts prog) (st_boxes st).
Proof. exact ro_erasure. Qed.
Print Assumptions C12.

(* ... and without the restriction on destinations: EVERY command step of such a
   program, wherever it stands among the other connections' changes, leaves every
   mailbox as it was except for messages it delivers (APPEND / COPY) at the end of a
   writable mailbox named as its destination: existing messages keep their place,
   flags, date, content and stored \Recent; new UIDs are above the old counter;
   read-only mailboxes and mailboxes that are not the destination are literally
   unchanged ([box_adds]); a failed MULTIAPPEND only uses up UIDs *)
Theorem C12_every_step : forall prog st,
  no_rw st -> wfb (st_boxes st) -> Forall msg_cmd (lcmds prog) ->
  all_cmd_steps (fun s c s' => only_adds (cmd_D c) (st_boxes s) (st_boxes s')) st prog.
Proof. exact ro_interleaved. Qed.
Print Assumptions C12_every_step.

(* the same for a program without interference, as one relation between the first
   and the last state, by mailbox name *)
Theorem C12_existing_untouched : forall st prog n b,
  no_rw st -> wfb (st_boxes st) -> Forall msg_cmd prog ->
  lookup n (st_boxes st) = Some b ->
  exists b', lookup n (st_boxes (fst (run st prog))) = Some b' /\ box_adds (dests prog) n b b'.
Proof. exact ro_only_adds_by_name. Qed.
Print Assumptions C12_existing_untouched.

Theorem C12_unchanged : forall st prog,
  no_rw st -> wfb (st_boxes st) -> Forall msg_cmd prog ->
  NoDup (map fst (st_boxes st)) ->
  (forall n, In n (dests prog) -> not_writable (st_boxes st) n) ->
  st_boxes (fst (run st prog)) = st_boxes st.
Proof. exact ro_unchanged. Qed.
Print Assumptions C12_unchanged.

(* EXAMINE, and SELECT of a backend-read-only mailbox, give a read-only
   selection and change nothing (no \Recent is claimed) *)
Theorem C12_select_readonly : forall st box ro b,
  lookup box (st_boxes st) = Some b -> ro = true \/ b_ro b = true ->
  ro_selected (fst (step st (CSelect box ro))) /\
  st_boxes (fst (step st (CSelect box ro))) = st_boxes st.
Proof. exact select_readonly. Qed.
Print Assumptions C12_select_readonly.

(* ro_refused: in a read-only selection STORE, EXPUNGE and MOVE answer
   NO [READ-ONLY] and change nothing (not even the session) *)
Theorem ro_refused_store : forall st s uid ss op silent fl,
  st_sel st = Some s -> s_ro s = true ->
  step st (CStore uid ss op silent fl) = (st, mkOut NO CReadOnly []).
Proof. exact C12Proofs.ro_refused_store. Qed.
Print Assumptions ro_refused_store.

Theorem ro_refused_expunge : forall st s us,
  st_sel st = Some s -> s_ro s = true ->
  step st (CExpunge us) = (st, mkOut NO CReadOnly []).
Proof. exact C12Proofs.ro_refused_expunge. Qed.
Print Assumptions ro_refused_expunge.

Theorem ro_refused_move : forall st s uid ss dest,
  st_sel st = Some s -> s_ro s = true ->
  step st (CMove uid ss dest) = (st, mkOut NO CReadOnly []).
Proof. exact C12Proofs.ro_refused_move. Qed.
Print Assumptions ro_refused_move.

(* ... and APPEND (any number of messages) / COPY / MOVE into a read-only mailbox
   answer NO [READ-ONLY], whatever is selected *)
Theorem ro_refused_append : forall st box b msgs,
  lookup box (st_boxes st) = Some b -> b_ro b = true ->
  step st (CAppend box msgs) = (st, mkOut NO CReadOnly []).
Proof. exact C12Proofs.ro_refused_append. Qed.
Print Assumptions ro_refused_append.

Theorem ro_refused_copy_into : forall st s sb d uid ss dest,
  st_sel st = Some s -> lookup (s_box s) (st_boxes st) = Some sb ->
  lookup dest (st_boxes st) = Some d -> b_ro d = true ->
  step st (CCopy uid ss dest) = (st, mkOut NO CReadOnly []).
Proof. exact C12Proofs.ro_refused_copy_into. Qed.
Print Assumptions ro_refused_copy_into.

Theorem ro_refused_move_into : forall st s sb d uid ss dest,
  st_sel st = Some s -> lookup (s_box s) (st_boxes st) = Some sb ->
  lookup dest (st_boxes st) = Some d -> b_ro d = true ->
  step st (CMove uid ss dest) = (st, mkOut NO CReadOnly []).
Proof. exact C12Proofs.ro_refused_move_into. Qed.
Print Assumptions ro_refused_move_into.

(* ro_close_ok: CLOSE of a read-only selection answers OK, leaves the
   selected state and removes nothing *)
Theorem ro_close_ok : forall st s,
  st_sel st = Some s -> s_ro s = true ->
  step st CClose = (mkState (st_bk st) (st_boxes st) None, mkOut OK CNone []).
Proof. exact C12Proofs.ro_close_ok. Qed.
Print Assumptions ro_close_ok.
