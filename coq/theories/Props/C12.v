(* Props/C12.v — a read-only selection never changes the mailbox.
   Statements only; proofs in RefModel/C12Proofs.v.  The model is
   RefModel/Model.v (one session's message commands as pymap executes them).
   "Persistent state" is [st_boxes]: for every mailbox its messages in order
   with UID, flags (so also an implicit \Seen), internal date, content id and
   the STORED \Recent mark (what the next read-write session will be given),
   its UID counter, read-only bit and permitted flags.
   All theorems hold for EVERY state: the session's cached view is not assumed
   to be in sync with the mailbox, so they also cover a session that other
   sessions have left behind. *)
From PV Require Import Base.Prelude Wire.SeqSet RefModel.Flags RefModel.Model
  RefModel.BoxLemmas RefModel.C12Proofs.

(* C12, strict form: starting with no read-write selection (a mailbox is
   selected read-only — by EXAMINE or because the backend declares it
   read-only — or, later in the program, nothing is selected any more), after
   ANY program of message commands (every command and UID variant, any
   arguments; no SELECT/EXAMINE, which would end the selection) whose
   APPEND/COPY/MOVE destinations are read-only or missing, the persistent state
   of every mailbox is exactly what it was *)
Theorem C12 : forall st prog,
  no_rw st -> Forall (fun c => is_select c = false) prog ->
  NoDup (map fst (st_boxes st)) ->
  (forall n, In n (dests prog) -> not_writable (st_boxes st) n) ->
  st_boxes (fst (run st prog)) = st_boxes st.
Proof. exact ro_unchanged. Qed.
Print Assumptions C12.

(* C12, general form: with writable destinations allowed too, every mailbox
   keeps all its messages, in place and untouched (flags, date, content, stored
   \Recent); the only possible difference is messages delivered by APPEND/COPY
   at the end of a writable mailbox named as destination, with UIDs above the
   old counter; read-only mailboxes and mailboxes not named as destination are
   literally unchanged *)
Theorem C12_existing_untouched : forall st prog n b,
  no_rw st -> Forall (fun c => is_select c = false) prog ->
  lookup n (st_boxes st) = Some b ->
  exists b', lookup n (st_boxes (fst (run st prog))) = Some b' /\ box_adds (dests prog) n b b'.
Proof. exact ro_only_adds_by_name. Qed.
Print Assumptions C12_existing_untouched.

(* EXAMINE, and SELECT of a backend-read-only mailbox, give a read-only
   selection and change nothing (no \Recent is claimed) *)
Theorem C12_select_readonly : forall st box ro b,
  lookup box (st_boxes st) = Some b -> ro = true \/ b_ro b = true ->
  ro_selected (fst (step st (CSelect box ro))) /\
  st_boxes (fst (step st (CSelect box ro))) = st_boxes st.
Proof. exact select_readonly. Qed.
Print Assumptions C12_select_readonly.

(* ro_refused: in a read-only selection STORE, EXPUNGE and MOVE answer
   NO [READ-ONLY] and change nothing (not even the session) *)
Theorem ro_refused_store : forall st s uid ss op silent fl,
  st_sel st = Some s -> s_ro s = true ->
  step st (CStore uid ss op silent fl) = (st, mkOut NO CReadOnly []).
Proof. exact C12Proofs.ro_refused_store. Qed.
Print Assumptions ro_refused_store.

Theorem ro_refused_expunge : forall st s us,
  st_sel st = Some s -> s_ro s = true ->
  step st (CExpunge us) = (st, mkOut NO CReadOnly []).
Proof. exact C12Proofs.ro_refused_expunge. Qed.
Print Assumptions ro_refused_expunge.

Theorem ro_refused_move : forall st s uid ss dest,
  st_sel st = Some s -> s_ro s = true ->
  step st (CMove uid ss dest) = (st, mkOut NO CReadOnly []).
Proof. exact C12Proofs.ro_refused_move. Qed.
Print Assumptions ro_refused_move.

(* ... and APPEND / COPY / MOVE into a read-only mailbox answer NO [READ-ONLY],
   whatever is selected *)
Theorem ro_refused_append : forall st box b fl date cid,
  lookup box (st_boxes st) = Some b -> b_ro b = true ->
  step st (CAppend box fl date cid) = (st, mkOut NO CReadOnly []).
Proof. exact C12Proofs.ro_refused_append. Qed.
Print Assumptions ro_refused_append.

Theorem ro_refused_copy_into : forall st s sb d uid ss dest,
  st_sel st = Some s -> lookup (s_box s) (st_boxes st) = Some sb ->
  lookup dest (st_boxes st) = Some d -> b_ro d = true ->
  step st (CCopy uid ss dest) = (st, mkOut NO CReadOnly []).
Proof. exact C12Proofs.ro_refused_copy_into. Qed.
Print Assumptions ro_refused_copy_into.

Theorem ro_refused_move_into : forall st s sb d uid ss dest,
  st_sel st = Some s -> lookup (s_box s) (st_boxes st) = Some sb ->
  lookup dest (st_boxes st) = Some d -> b_ro d = true ->
  step st (CMove uid ss dest) = (st, mkOut NO CReadOnly []).
Proof. exact C12Proofs.ro_refused_move_into. Qed.
Print Assumptions ro_refused_move_into.

(* ro_close_ok: CLOSE of a read-only selection answers OK, leaves the
   selected state and removes nothing *)
Theorem ro_close_ok : forall st s,
  st_sel st = Some s -> s_ro s = true ->
  step st CClose = (mkState (st_bk st) (st_boxes st) None, mkOut OK CNone []).
Proof. exact C12Proofs.ro_close_ok. Qed.
Print Assumptions ro_close_ok.
