#!/usr/bin/env python3
"""tools/seed_intake.py <outdir> <Cxx> [...]: confirm every change a mutation
agent left under <outdir>/<Cxx>/<k>/ (tools/seed_run.py verify), import the
confirmed ones as /verif/seeded/<Cxx>-<next index>/ and run the property's
quick check against each (scratch worktree).  Prints one line per change."""
import json
import os
import shutil
import subprocess
import sys

V = os.path.dirname(os.path.dirname(os.path.abspath(__file__)))
sys.path.insert(0, os.path.join(V, 'tools'))
import seed_run  # noqa: E402


def next_index(prop):
    used = [int(n.split('-')[1]) for n in os.listdir(os.path.join(V, 'seeded'))
            if n.startswith(prop + '-') and n.split('-')[1].isdigit()]
    return max(used, default=0) + 1


def main():
    outdir = sys.argv[1]
    for prop in sys.argv[2:]:
        base = os.path.join(outdir, prop)
        if not os.path.isdir(base):
            print(prop, 'no output')
            continue
        for k in sorted(os.listdir(base)):
            d = os.path.join(base, k)
            if not os.path.exists(os.path.join(d, 'patch.diff')) or \
                    os.path.exists(os.path.join(d, '.imported')):
                continue
            devnull = open(os.devnull, 'w')
            old = sys.stdout
            sys.stdout = devnull
            try:
                res = seed_run.verify(d)
            finally:
                sys.stdout = old
            if not res['confirmed']:
                print(f'{prop}/{k}: NOT CONFIRMED', {x: res.get(x) for x in (
                    'applies', 'suite_green_with_change', 'demo_clean_exit', 'demo_changed_exit')})
                continue
            name = f'{prop}-{next_index(prop)}'
            dst = os.path.join(V, 'seeded', name)
            os.makedirs(dst)
            for f in ('patch.diff', 'demo.py', 'meta.json'):
                shutil.copy(os.path.join(d, f), dst)
            m = json.load(open(os.path.join(dst, 'meta.json')))
            m['confirmed_by_coordinator'] = {
                'tool': 'tools/seed_run.py verify',
                'result': 'patch applies to /repo HEAD in a scratch worktree; suite 300 passed '
                          'with the change; demo exit 1 with the change, 0 without',
                'repo_head': subprocess.check_output(
                    ['git', '-C', '/repo', 'rev-parse', '--short', 'HEAD']).decode().strip()}
            json.dump(m, open(os.path.join(dst, 'meta.json'), 'w'), indent=1)
            open(os.path.join(d, '.imported'), 'w').write(name)
            sys.stdout = devnull
            try:
                out = seed_run.check(dst, 'quick')
            finally:
                sys.stdout = old
            print(f'{prop}/{k} -> {name}: {out}', flush=True)


if __name__ == '__main__':
    main()
