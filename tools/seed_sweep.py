#!/usr/bin/env python3
"""tools/seed_sweep.py <jobs> <name>...: run the quick check of each named seeded change
(tools/seed_run.py check, scratch worktree) with <jobs> in parallel and merge the outcomes into
seeded/RESULTS.json (entries of seeds not named are kept as they are)."""
import json, os, subprocess, sys
from concurrent.futures import ThreadPoolExecutor
V = os.path.dirname(os.path.dirname(os.path.abspath(__file__)))
jobs = int(sys.argv[1]); names = sys.argv[2:]
rp = os.path.join(V, 'seeded', 'RESULTS.json')
head = subprocess.check_output(['git', '-C', '/repo', 'rev-parse', '--short', 'HEAD']).decode().strip()

def one(name):
    p = subprocess.run([sys.executable, os.path.join(V, 'tools', 'seed_run.py'), 'check',
                        os.path.join(V, 'seeded', name), 'quick'],
                       stdout=subprocess.PIPE, stderr=subprocess.STDOUT, timeout=7200)
    out = p.stdout.decode('utf-8', 'replace')
    kind, detail = 'error', []
    for l in out.split('\n'):
        if ' quick: ' in l and l.startswith(name):
            kind = l.split(': ', 1)[1].strip()
        if 'patch does not apply' in l:
            kind = 'patch-does-not-apply'
        if l.strip().startswith(('failing:', 'broken:')):
            detail.append(l.strip()[:240])
    return name, kind, detail[:3]

with ThreadPoolExecutor(max_workers=jobs) as ex:
    for name, kind, detail in ex.map(one, names):
        table = json.load(open(rp)) if os.path.exists(rp) else {}
        table[name] = {'result': kind, 'tier': 'quick', 'repo_head': head, 'detail': detail}
        json.dump(table, open(rp, 'w'), indent=1)
        print(name, kind, flush=True)
