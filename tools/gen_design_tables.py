#!/usr/bin/env python3
"""Regenerate the machine-written tables of DESIGN.md (between the
<!-- BEGIN GENERATED x --> / <!-- END GENERATED x --> markers) from
known_findings.jsonl, seeded/*/meta.json + seeded/RESULTS.json, evidence/*.json
and coq/theories/Props/*.v."""
import json
import os
import re

V = os.path.dirname(os.path.dirname(os.path.abspath(__file__)))


def findings_table():
    rows = []
    for l in open(os.path.join(V, 'known_findings.jsonl')):
        l = l.strip()
        if not l or l.startswith('#'):
            continue
        d = json.loads(l)
        what = (d.get('what') or d.get('clause') or '').replace('|', '/').replace('\n', ' ')
        if len(what) > 230:
            what = what[:227] + '...'
        rows.append((d['property'], d['id'], d['status'], d.get('commit', '')[:7], what))
    rows.sort()
    out = ['| id | status | commit | what |', '|----|--------|--------|------|']
    for _p, i, st, c, w in rows:
        out.append(f'| {i} | {st} | {c} | {w} |')
    n_fixed = sum(1 for r in rows if r[2] == 'fixed')
    n_open = sum(1 for r in rows if r[2] == 'open')
    out.append('')
    out.append(f'{n_fixed} fixed by `fix:` commits in /repo, {n_open} open known findings.')
    return '\n'.join(out)


def seeded_table():
    base = os.path.join(V, 'seeded')
    res = {}
    rp = os.path.join(base, 'RESULTS.json')
    if os.path.exists(rp):
        res = json.load(open(rp))
    out = ['| seed | property | change (file) | needs | quick check result |',
           '|------|----------|---------------|-------|--------------------|']
    for name in sorted(os.listdir(base)):
        mp = os.path.join(base, name, 'meta.json')
        if not os.path.exists(mp):
            continue
        m = json.load(open(mp))
        title = (m.get('title') or m.get('mechanism') or '').replace('|', '/').replace('\n', ' ')[:150]
        files = ', '.join(os.path.basename(f) for f in m.get('files', []))[:60]
        needs = (m.get('needs') or '').replace('|', '/').replace('\n', ' ')[:170]
        r = res.get(name, {}).get('result', 'not run')
        r = {'caught': 'caught, concrete failing input',
             'caught-no-input': 'caught (model disagreement, no-failing-input-found)',
             'missed': 'MISSED'}.get(r, r)
        out.append(f'| {name} | {m.get("property")} | {title} ({files}) | {needs} | {r} |')
    return '\n'.join(out)


def theorem_table():
    out = ['| property | theorems in Props/Cxx.v (all closed under the global context unless noted) |',
           '|----------|------------------------------------------------------------------------|']
    d = os.path.join(V, 'coq', 'theories', 'Props')
    for f in sorted(os.listdir(d)):
        if not re.fullmatch(r'C\d+\.v', f):
            continue
        src = open(os.path.join(d, f)).read()
        names = re.findall(r'^\s*(?:Theorem|Lemma|Corollary)\s+([A-Za-z0-9_\']+)', src, re.M)
        ev = os.path.join(V, 'evidence', f[:-2] + '.json')
        ax = ''
        if os.path.exists(ev):
            e = json.load(open(ev))
            axs = sorted({a for t in e['coverage'].get('theorems', []) for a in t.get('assumptions', [])})
            if axs:
                ax = ' — axioms: ' + ', '.join(axs)
        out.append(f'| {f[:-2]} | {len(names)}: ' + ', '.join(f'`{n}`' for n in names) + ax + ' |')
    return '\n'.join(out)


def evidence_table():
    out = ['| property | tier | theorems | correspondence cases | evaluations (distinct non-trivial) | known findings seen | wall s |',
           '|----------|------|----------|----------------------|-----------------------------------|---------------------|--------|']
    d = os.path.join(V, 'evidence')
    for f in sorted(os.listdir(d)):
        if not f.endswith('.json'):
            continue
        e = json.load(open(os.path.join(d, f)))
        c = e['coverage']
        cases = sum(x.get('cases', 0) for x in c.get('correspondence', []))
        out.append(f'| {e["property_id"]} | {e["tier"]} | {c.get("discharged")}/{c.get("obligations")} | '
                   f'{cases} | {c.get("evaluations")} ({c.get("distinct_nontrivial")}) | '
                   f'{", ".join(c.get("known_findings_seen", [])) or "-"} | {e["wall_s"]} |')
    return '\n'.join(out)


GEN = {'FINDINGS': findings_table, 'SEEDED': seeded_table, 'THEOREMS': theorem_table,
       'EVIDENCE': evidence_table}


def main():
    p = os.path.join(V, 'DESIGN.md')
    s = open(p).read()
    for key, fn in GEN.items():
        b, e = f'<!-- BEGIN GENERATED {key} -->', f'<!-- END GENERATED {key} -->'
        if b in s and e in s:
            s = s[:s.index(b) + len(b)] + '\n' + fn() + '\n' + s[s.index(e):]
    open(p, 'w').write(s)


if __name__ == '__main__':
    main()
