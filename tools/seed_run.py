#!/usr/bin/env python3
"""Confirm a seeded change and run the checks against it, in a scratch worktree
(never in /repo).

  tools/seed_run.py verify <dir>         # <dir> has patch.diff, demo.py, meta.json
  tools/seed_run.py check  <dir> [tier]  # VERIF_REPO=<worktree> ./check <property>
  tools/seed_run.py all [tier]           # check every /verif/seeded/*/ and print a table
"""
import json
import os
import shutil
import subprocess
import sys
import tempfile

V = os.path.dirname(os.path.dirname(os.path.abspath(__file__)))
PY = '/venv/bin/python'


def sh(cmd, cwd=None, env=None, timeout=1800):
    p = subprocess.run(cmd, cwd=cwd, env=env, shell=isinstance(cmd, str),
                       stdout=subprocess.PIPE, stderr=subprocess.STDOUT, timeout=timeout)
    return p.returncode, p.stdout.decode('utf-8', 'replace')


class Worktree:
    def __enter__(self):
        self.dir = tempfile.mkdtemp(prefix='seedwt-')
        os.rmdir(self.dir)
        rc, out = sh(['git', '-C', '/repo', 'worktree', 'add', '--detach', self.dir, 'HEAD'])
        assert rc == 0, out
        return self.dir

    def __exit__(self, *a):
        sh(['git', '-C', '/repo', 'worktree', 'remove', '--force', self.dir])
        shutil.rmtree(self.dir, ignore_errors=True)
        sh(['git', '-C', '/repo', 'worktree', 'prune'])


def env_for(wt):
    e = dict(os.environ)
    e['PYTHONPATH'] = wt
    e['PYTHONHASHSEED'] = '0'
    e['PYTHONDONTWRITEBYTECODE'] = '1'
    return e


def suite(wt):
    rc, out = sh([PY, '-m', 'pytest', '-q', '-p', 'no:cacheprovider',
                  '--continue-on-collection-errors'], cwd=wt, env=env_for(wt))
    tail = out.strip().split('\n')[-1]
    return ('300 passed' in tail and 'failed' not in tail), tail


def demo(wt, d):
    rc, out = sh(['timeout', '120', PY, os.path.join(d, 'demo.py')], cwd=wt, env=env_for(wt))
    return rc, out[-600:]


def verify(d):
    d = os.path.abspath(d)
    res = {}
    with Worktree() as wt:
        rc0, out0 = demo(wt, d)
        res['demo_clean_exit'] = rc0
        rc, out = sh(['git', 'apply', os.path.join(d, 'patch.diff')], cwd=wt)
        res['applies'] = rc == 0
        if rc != 0:
            res['apply_out'] = out[-400:]
        else:
            ok, tail = suite(wt)
            res['suite_green_with_change'] = ok
            res['suite_tail'] = tail
            rc1, out1 = demo(wt, d)
            res['demo_changed_exit'] = rc1
            res['demo_changed_tail'] = out1[-300:]
    res['confirmed'] = bool(res.get('applies') and res.get('suite_green_with_change')
                            and res['demo_clean_exit'] == 0 and res.get('demo_changed_exit', 0) != 0)
    print(json.dumps(res, indent=1))
    return res


def check(d, tier='quick', props=None):
    d = os.path.abspath(d)
    meta = json.load(open(os.path.join(d, 'meta.json')))
    props = props or [meta['property']]
    out_all = {}
    with Worktree() as wt:
        rc, out = sh(['git', 'apply', os.path.join(d, 'patch.diff')], cwd=wt)
        if rc != 0:
            print('patch does not apply:', out[-300:])
            return {p: 'patch-does-not-apply' for p in props}
        for p in props:
            e = dict(os.environ)
            e['VERIF_REPO'] = wt
            rc, out = sh([os.path.join(V, 'check'), p, '--tier', tier], cwd=V, env=e, timeout=3600)
            viol = [l for l in out.split('\n') if l.startswith('VIOLATION')]
            kind = 'missed'
            if rc != 0 and viol:
                kind = 'caught-no-input' if all('no-failing-input-found' in l for l in viol) \
                    else 'caught'
            elif rc not in (0, 1):
                kind = f'harness-error({rc})'
            out_all[p] = kind
            print(f'{os.path.basename(d)} {p} {tier}: {kind}')
            for l in out.split('\n'):
                if l.startswith(('VIOLATION', '  failing', '  broken')):
                    print('   ', l[:300])
    # evidence files were rewritten against the worktree: the caller re-runs on /repo
    return out_all


def main():
    cmd = sys.argv[1]
    if cmd == 'verify':
        r = verify(sys.argv[2])
        sys.exit(0 if r['confirmed'] else 1)
    if cmd == 'check':
        check(sys.argv[2], sys.argv[3] if len(sys.argv) > 3 else 'quick',
              sys.argv[4].split(',') if len(sys.argv) > 4 else None)
    if cmd == 'all':
        # tools/seed_run.py all [tier] [jobs]  -> seeded/RESULTS.json
        from concurrent.futures import ThreadPoolExecutor
        tier = sys.argv[2] if len(sys.argv) > 2 else 'quick'
        jobs = int(sys.argv[3]) if len(sys.argv) > 3 else 4
        base = os.path.join(V, 'seeded')
        names = [n for n in sorted(os.listdir(base))
                 if os.path.exists(os.path.join(base, n, 'patch.diff'))]

        def one(name):
            rc, out = sh([sys.executable, os.path.abspath(__file__), 'check',
                          os.path.join(base, name), tier], timeout=7200)
            kind = 'error'
            detail = []
            for l in out.split('\n'):
                if f' {tier}: ' in l and l.startswith(name):
                    kind = l.split(': ', 1)[1].strip()
                if l.strip().startswith(('failing:', 'broken:')):
                    detail.append(l.strip()[:240])
            return name, kind, detail[:3]
        head = sh(['git', '-C', '/repo', 'rev-parse', '--short', 'HEAD'])[1].strip()
        table = {}
        with ThreadPoolExecutor(max_workers=jobs) as ex:
            for name, kind, detail in ex.map(one, names):
                table[name] = {'result': kind, 'tier': tier, 'repo_head': head, 'detail': detail}
                print(name, kind, flush=True)
        json.dump(table, open(os.path.join(base, 'RESULTS.json'), 'w'), indent=1)


if __name__ == '__main__':
    main()
