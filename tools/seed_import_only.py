#!/usr/bin/env python3
"""tools/seed_import_only.py <outdir> <Cxx> [...]: like seed_intake.py but without running the
property's check: confirm every change under <outdir>/<Cxx>/<k>/ (tools/seed_run.py verify) and
import the confirmed ones as /verif/seeded/<Cxx>-<next index>/ (the sweep `seed_run.py all` runs
the checks later)."""
import json, os, shutil, subprocess, sys
V = os.path.dirname(os.path.dirname(os.path.abspath(__file__)))
sys.path.insert(0, os.path.join(V, 'tools'))
import seed_run  # noqa: E402
from seed_intake import next_index  # noqa: E402

outdir = sys.argv[1]
for prop in sys.argv[2:]:
    base = os.path.join(outdir, prop)
    for k in sorted(os.listdir(base)) if os.path.isdir(base) else []:
        d = os.path.join(base, k)
        if not os.path.exists(os.path.join(d, 'patch.diff')) or os.path.exists(os.path.join(d, '.imported')):
            continue
        old = sys.stdout
        sys.stdout = open(os.devnull, 'w')
        try:
            res = seed_run.verify(d)
        finally:
            sys.stdout = old
        if not res['confirmed']:
            print(f'{prop}/{k}: NOT CONFIRMED', {x: res.get(x) for x in (
                'applies', 'suite_green_with_change', 'suite_tail', 'demo_clean_exit', 'demo_changed_exit')}, flush=True)
            continue
        name = f'{prop}-{next_index(prop)}'
        dst = os.path.join(V, 'seeded', name)
        os.makedirs(dst)
        for f in ('patch.diff', 'demo.py', 'meta.json'):
            shutil.copy(os.path.join(d, f), dst)
        m = json.load(open(os.path.join(dst, 'meta.json')))
        m['confirmed_by_coordinator'] = {
            'tool': 'tools/seed_run.py verify',
            'result': 'patch applies to /repo HEAD in a scratch worktree; suite 300 passed with the change; demo exit 1 with the change, 0 without',
            'repo_head': subprocess.check_output(['git', '-C', '/repo', 'rev-parse', '--short', 'HEAD']).decode().strip()}
        json.dump(m, open(os.path.join(dst, 'meta.json'), 'w'), indent=1)
        open(os.path.join(d, '.imported'), 'w').write(name)
        print(f'{prop}/{k} -> {name}: confirmed, imported', flush=True)
