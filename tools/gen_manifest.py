#!/usr/bin/env python3
"""Regenerate /verif/MANIFEST.json from harness/props/*.py (a property is claimed
when its check module and its Props/Cxx.v exist) and tools/manifest_meta.json."""
import json
import os

V = os.path.dirname(os.path.dirname(os.path.abspath(__file__)))
meta = json.load(open(os.path.join(V, 'tools', 'manifest_meta.json')))
md = os.path.join(V, 'tools', 'meta')
for f in sorted(os.listdir(md)) if os.path.isdir(md) else []:
    if f.endswith('.json'):
        meta[f[:-5]] = json.load(open(os.path.join(md, f)))
props = [json.loads(l) for l in open(os.path.join(V, 'properties.jsonl')) if l.strip()]
checks, na = [], []
for p in props:
    pid = p['id']
    m = meta.get(pid, {})
    have = os.path.exists(os.path.join(V, 'harness', 'props', pid + '.py')) and \
        os.path.exists(os.path.join(V, 'coq', 'theories', 'Props', pid + '.v'))
    if not have or m.get('not_applicable'):
        na.append({'property_id': pid,
                   'reason': m.get('not_applicable') or
                   'check not built yet in this round (planned, see DESIGN.md section 5)'})
        continue
    checks.append({
        'property_id': pid,
        'quick_cmd': f'./check {pid} --tier quick',
        'thorough_cmd': f'./check {pid} --tier thorough',
        'evidence_file': f'/verif/evidence/{pid}.json',
        'replay_cmd_template': f'./check {pid} --replay {{path}}',
        'engine': 'coq-proof+correspondence',
        'level_claimed': {'category': 'proof', 'text': m.get('text', ''),
                          'design_ref': m.get('design_ref', f'DESIGN.md section 5, {pid}')},
        'level_note': m.get('note', ''),
        'technique': m.get('technique', 'Coq 8.16 theorems over a hand-written Gallina model; '
                                        'model tied to /repo by vm_compute correspondence on '
                                        'generated cases; implementation-side monitors for replays'),
    })
manifest = {
    'version': 1,
    'setup_cmd': './setup.sh',
    'hooks': {
        'guard': 'ICGOOD_PYMAP_VERIF',
        'enable': 'none needed: the harness wraps what it observes inside its own process; '
                  './check exports ICGOOD_PYMAP_VERIF=1 for any future guarded hook',
        'baseline_off_cmd': 'cd /repo && env -u ICGOOD_PYMAP_VERIF /venv/bin/python -m pytest -ra -q '
                            '-p no:cacheprovider --timeout=900 --continue-on-collection-errors',
        'source_commits': meta.get('_hook_commits', []),
        'add_only': True,
    },
    'engines': [{
        'name': 'coq-proof+correspondence',
        'path': '/verif/check',
        'serves_properties': [c['property_id'] for c in checks],
        'kind_free_text': 'Coq 8.16.1 development under /verif/coq (models, proofs, Props/Cxx.v) + '
                          'Python harness under /verif/harness that runs the implementation from '
                          '/repo and evaluates the same cases on the model with vm_compute',
    }],
    'checks': checks,
    'not_applicable': na,
    'notes': meta.get('_notes', ''),
}
json.dump(manifest, open(os.path.join(V, 'MANIFEST.json'), 'w'), indent=1)
print('claimed:', [c['property_id'] for c in checks])
print('not claimed:', [n['property_id'] for n in na])
