#!/usr/bin/env python3
"""tools/seed_rebase.py [names...]: for every seeded change whose patch.diff no longer
applies to /repo HEAD (a later `fix:` commit moved its context), try to re-apply it with
reduced context (`git apply -C1`, then `--3way`) in a scratch worktree; when that works and
the change is still confirmed there (suite 300 passed, demo exit 1 with / 0 without), rewrite
patch.diff and note the rebase in meta.json.  Prints one line per seed that needed work."""
import json
import os
import subprocess
import sys

V = os.path.dirname(os.path.dirname(os.path.abspath(__file__)))
sys.path.insert(0, os.path.join(V, 'tools'))
import seed_run  # noqa: E402


def main():
    base = os.path.join(V, 'seeded')
    names = sys.argv[1:] or sorted(n for n in os.listdir(base)
                                   if os.path.exists(os.path.join(base, n, 'patch.diff')))
    head = subprocess.check_output(['git', '-C', '/repo', 'rev-parse', '--short', 'HEAD']).decode().strip()
    for name in names:
        d = os.path.join(base, name)
        patch = os.path.join(d, 'patch.diff')
        with seed_run.Worktree() as wt:
            rc, _ = seed_run.sh(['git', 'apply', '--check', patch], cwd=wt)
            if rc == 0:
                continue
            how = None
            for opts in (['-C1'], ['-C0', '--unidiff-zero'], ['--3way']):
                rc, out = seed_run.sh(['git', 'apply'] + opts + [patch], cwd=wt)
                if rc == 0:
                    how = ' '.join(opts)
                    break
                seed_run.sh(['git', 'checkout', '--', '.'], cwd=wt)
            if how is None:
                print(f'{name}: DOES NOT APPLY at {head} (manual rebase needed)', flush=True)
                continue
            rc, new = seed_run.sh(['git', 'diff'], cwd=wt)
            ok, tail = seed_run.suite(wt)
            rc1, _ = seed_run.demo(wt, d)
            seed_run.sh(['git', 'checkout', '--', '.'], cwd=wt)
            rc0, _ = seed_run.demo(wt, d)
            if not (ok and rc1 != 0 and rc0 == 0):
                print(f'{name}: applies with {how} but no longer confirmed at {head}: '
                      f'suite_ok={ok} demo_changed={rc1} demo_clean={rc0}', flush=True)
                continue
            open(patch, 'w').write(new)
            m = json.load(open(os.path.join(d, 'meta.json')))
            m.setdefault('rebased', []).append({'repo_head': head, 'how': 'git apply ' + how,
                                                'confirmed': 'suite 300 passed, demo 1 with / 0 without'})
            json.dump(m, open(os.path.join(d, 'meta.json'), 'w'), indent=1)
            print(f'{name}: rebased at {head} ({how}), still confirmed', flush=True)


if __name__ == '__main__':
    main()
