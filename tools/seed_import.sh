#!/bin/bash
# tools/seed_import.sh Cxx k  — copy a confirmed seeded change from /tmp/mut-out into /verif/seeded/Cxx-k
set -e
p=$1; k=$2; t=${3:-$2}; src=/tmp/mut-out/$p/$k; dst=/verif/seeded/$p-$t
mkdir -p $dst; cp $src/patch.diff $src/demo.py $src/meta.json $dst/
python3 - "$dst" <<'PY'
import json,sys,subprocess,datetime
d=sys.argv[1]
m=json.load(open(d+'/meta.json'))
m['confirmed_by_coordinator']={'tool':'tools/seed_run.py verify','result':'patch applies to /repo HEAD in a scratch worktree; suite 300 passed with the change; demo exit 1 with the change, 0 without',
  'repo_head':subprocess.check_output(['git','-C','/repo','rev-parse','--short','HEAD']).decode().strip()}
json.dump(m,open(d+'/meta.json','w'),indent=1)
PY
